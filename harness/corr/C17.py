"""
C17 — parsing, converting and writing are pure, repeatable and safe to run in threads.

The Lean model of the pipeline is a family of functions, so "depends only on the input" holds there by
construction; the part of the code that is *not* a function — the shared `functools.singledispatch` tables of
`ofxtools.Types` that `DateTime.normalize_to_gmt` rewrites at run time — is modelled as a state machine
(lean/OfxModel/Ofx/Registry.lean) and proved inert (OfxProofs/Props/C17.lean).  This file is the other half:
is the implementation that function, under every history and schedule we can produce?

impl    = OFXTree().parse(BytesIO) / .convert(), Aggregate.from_etree, Aggregate.to_etree, OFXClient.serialize,
          DateTime()/Time() .convert/.unconvert — each run (a) first and alone, (b) after preceding workloads,
          (c) repeatedly, (d) from 1..16 threads on disjoint inputs at once
model   = the value of the same input ALONE: driver ops pipe.parse, pipe.read, fromtree, totree, pipe.write,
          conv, unconv; and for op histories on converter instances pur.run (model registry + dispatch tables),
          compared with the real `dispatcher.registry` / `dispatch_cache` / `dispatch(cls)` read back
oracle  = the property itself on the implementation: a result that differs from the implementation's own first
          single-threaded result for that input; an input (bytes, element tree, instance) that differs from its
          snapshot after a call; a result object that changes after it was returned; shared state of the package
          (module globals, class dicts, converter attributes, the 15 dispatch registries) that is not
          observationally what it was at import.
"""
import copy
import datetime
import decimal
import gc
import io
import pickle
import random
import sys
import threading
import time
import types
import warnings
import xml.etree.ElementTree as ET

from codec import canon_inst, canon_tree, canon_val, text
from proto import B, S
from gen.instances import Gen, concrete_classes
from corr.agg_common import model_ok_err
from corr.C01 import hdr_canon, V1, V2
from corr.C07 import make_unknown
from corr import C09 as D
from framework import run_impl

RULE = ("every concrete class: a generated valid instance -> items to_etree, serialize (one of 6 wire forms x header "
        "versions), parse + convert of the bytes written, parse alone, from_etree of the tree with vendor (INTU.x) and "
        "unknown insertions; malformed items (truncated / corrupted files, trees with bad values, unknown roots); "
        "DateTime/Time convert/unconvert items on fresh and on class-level converters (texts in every notation, "
        "calendar-overflowing texts that register and then fail, aware/naive/foreign-type values). Each item: first "
        "run alone vs model; re-run after random workloads (other classes, failing documents, date-time conversions "
        "on fresh/class-level/required converters, copy/deepcopy/pickle, dropping converters + gc, pretty-printed "
        "writes, OFXTree reuse); repeated; from 1..N threads on disjoint items behind a barrier with "
        "sys.setswitchinterval down to 1e-6; inputs snapshotted before / compared after every call; earlier results "
        "re-canonicalised at the end; dispatch registries, caches and dispatch(cls) read back against the model "
        "registry after sequential op histories (exact) and after threaded ones (up to observational equality). "
        "Distinct by (op, input).")

UTC = datetime.timezone.utc


# ======================================================================================================
# real dispatch tables
# ======================================================================================================
class RegView:
    """reads `DateTime.unconvert` / `Time.unconvert` dispatch state of the running interpreter"""
    KEYS = [(type(None), "NoneType"), (bool, "bool"), (int, "int"), (str, "str"), (decimal.Decimal, "Decimal"),
            (datetime.datetime, "datetime"), (datetime.date, "date"), (datetime.time, "time"), (float, "other")]

    def __init__(self):
        from ofxtools import Types
        self.Types = Types
        self.dt = Types.DateTime.__dict__["unconvert"].dispatcher
        self.tm = Types.Time.__dict__["unconvert"].dispatcher
        self.names = {k: n for k, n in self.KEYS}

    @staticmethod
    def cache_of(disp):
        return disp._clear_cache.__self__          # the WeakKeyDictionary `dispatch_cache`

    def kname(self, k):
        if k is object:
            return "object"
        return self.names.get(k, "other")

    @staticmethod
    def handler(h, ids):
        """-> [qualname, none | (some id)] ; ids: id(instance) -> harness index (unknown instance: -1)"""
        if isinstance(h, types.MethodType):
            return [h.__func__.__qualname__, ["some", str(ids.get(id(h.__self__), -1))]]
        return [getattr(h, "__qualname__", repr(h)), "none"]

    def state(self, disp, ids):
        reg = {self.kname(k): self.handler(v, ids) for k, v in disp.registry.items()}
        dflt = reg.pop("object", None)
        cache = {self.kname(k): self.handler(v, ids) for k, v in list(self.cache_of(disp).items())}
        return dflt, reg, cache

    def dispatch_table(self, disp, ids):
        return {n: self.handler(disp.dispatch(k), ids) for k, n in self.KEYS}

    def reset(self):
        """put both generic functions into the state they have right after import"""
        f = self.Types.DateTime.__dict__["_unconvert_datetime"]
        self.dt.register(datetime.datetime, f)       # also empties the dispatch cache
        self.tm._clear_cache()

    def is_initial(self):
        h = self.dt.registry[datetime.datetime]
        return isinstance(h, types.FunctionType) and not len(self.cache_of(self.dt)) and not len(self.cache_of(self.tm))

    def inert_problems(self, import_regs):
        """python twin of Spec.Purity.inertB on the real tables: list of problems (empty = observationally initial)"""
        out = []
        for (cname, mname), (disp, reg0) in import_regs.items():
            reg = dict(disp.registry)
            if set(reg) != set(reg0):
                out.append(f"{cname}.{mname}: registry keys changed")
                continue
            for k, f0 in reg0.items():
                h = reg[k]
                if h is f0:
                    continue
                if (isinstance(h, types.MethodType) and h.__func__ is f0 and f0.__qualname__ in
                        ("DateTime._unconvert_datetime",) and type(h.__self__) is self.Types.DateTime):
                    continue
                out.append(f"{cname}.{mname}[{k.__name__}]: {h!r} is not {f0.__qualname__}")
            for k, h in list(self.cache_of(disp).items()):
                want = None
                for b in k.__mro__:
                    if b in reg0:
                        want = reg0[b]
                        break
                f = h.__func__ if isinstance(h, types.MethodType) else h
                if f is not want:
                    out.append(f"{cname}.{mname} cache[{k.__name__}]: {h!r} is not {getattr(want, '__qualname__', want)}")
        return out


def all_dispatchers():
    """{(class name, method name): (dispatcher, dict(registry) now)} for every singledispatchmethod of ofxtools.Types"""
    from ofxtools import Types
    from functools import singledispatchmethod
    out = {}
    for cname, cls in vars(Types).items():
        if isinstance(cls, type):
            for mname, m in vars(cls).items():
                if isinstance(m, singledispatchmethod):
                    out[(cname, mname)] = (m.dispatcher, dict(m.dispatcher.registry))
    return out


# ======================================================================================================
# snapshot of the package's shared state (everything that outlives a call)
# ======================================================================================================
def _fp(v):
    if isinstance(v, dict):
        return ("dict", len(v), tuple((repr(k), id(x)) for k, x in list(v.items())))
    if isinstance(v, (list, set, frozenset, tuple)):
        return (type(v).__name__, len(v), tuple(id(x) for x in list(v)))
    return None


def snapshot_shared():
    import ofxtools
    from ofxtools import Types
    from ofxtools.models.base import Aggregate
    snap = {}
    mods = [m for n, m in list(sys.modules.items()) if m is not None and (n == "ofxtools" or n.startswith("ofxtools."))]
    classes = set()
    for m in mods:
        for name, val in list(vars(m).items()):
            if name.startswith("__"):
                continue
            snap[("module", m.__name__, name)] = (id(val), _fp(val))
            if isinstance(val, type) and getattr(val, "__module__", "").startswith("ofxtools"):
                classes.add(val)
    for cls in classes:
        for name, val in list(vars(cls).items()):
            if name in ("__dict__", "__weakref__", "__doc__", "__module__", "__slotnames__"):   # __slotnames__: copyreg's per-class cache (copy / pickle)
                continue
            snap[("class", cls.__module__ + "." + cls.__qualname__, name)] = (id(val), _fp(val))
            if isinstance(val, (Types.Element, Types.Unsupported)):
                snap[("converter", cls.__qualname__, name)] = tuple(sorted((k, repr(x)) for k, x in vars(val).items()))
                inner = getattr(val, "converter", None)
                if isinstance(inner, Types.Element):
                    snap[("converter", cls.__qualname__, name + ".converter")] = \
                        tuple(sorted((k, repr(x)) for k, x in vars(inner).items()))
    return snap


def diff_shared(a, b):
    out = []
    for k in a.keys() | b.keys():
        if a.get(k) != b.get(k):
            out.append("%s %s.%s" % k + (" appeared" if k not in a else " vanished" if k not in b else " changed"))
    return sorted(out)


# ======================================================================================================
# items: one operation on one input, with everything needed to re-run and to judge it
# ======================================================================================================
class Item:
    __slots__ = ("kind", "cls", "inp", "args", "snap", "line", "base", "model", "desc", "keep", "keep_canon")

    def __init__(self, kind, cls, inp, args=None, desc=None):
        self.kind, self.cls, self.inp, self.args, self.desc = kind, cls, inp, args, desc
        self.snap = snap_input(self)
        self.line = None
        self.base = None
        self.model = None
        self.keep = None            # a result object kept alive (checked again at the end)
        self.keep_canon = None


def snap_input(it):
    k = it.kind
    if k in ("totree", "write"):
        return text(canon_inst(it.inp))
    if k == "fromtree":
        return text(canon_tree(it.inp))
    if k in ("read", "parse"):
        return bytes(it.inp)
    if k in ("conv", "unconv"):
        return text(canon_val(it.args[1])) + repr(sorted(vars(it.inp).items(), key=lambda kv: kv[0]))
    raise ValueError(k)


def case_of(it):
    c = {"op": it.kind, "cls": it.cls}
    if it.kind in ("read", "parse"):
        c["file"] = it.inp.decode("utf-8", "replace")[:1500]
    elif it.kind == "fromtree":
        c["tree"] = ET.tostring(it.inp, encoding="unicode")[:1500]
    elif it.kind in ("totree", "write"):
        c["instance"] = it.snap[:1500]
        if it.args:
            c["args"] = list(it.args)
    else:
        c["converter"] = repr(it.inp)
        c["value"] = repr(it.args[1])
    if it.desc:
        c["desc"] = it.desc
    return c


class Env:
    """per-run implementation objects"""

    def __init__(self):
        from ofxtools.Client import OFXClient
        from ofxtools.Parser import OFXTree
        from ofxtools.models.base import Aggregate
        self.client = OFXClient("https://example.com/ofx", userid="u")
        self.OFXTree = OFXTree
        self.Aggregate = Aggregate


def exec_item(env, it, keep=False):
    """run the implementation on the item; -> (canonical result, list of input-mutation notes)"""
    k = it.kind
    notes = []
    if k == "totree":
        r = run_impl(it.inp.to_etree)
        res = ["ok", canon_tree(r[1])] if r[0] == "ok" else ["err"]
    elif k == "write":
        version, old, new, pretty, close = it.args
        r = run_impl(env.client.serialize, it.inp, version=version, oldfileuid=old, newfileuid=new,
                     prettyprint=pretty, close_elements=close)
        res = ["ok", B(r[1])] if r[0] == "ok" else ["err"]
    elif k == "fromtree":
        r = run_impl(env.Aggregate.from_etree, it.inp)
        res = ["ok", canon_inst(r[1])] if r[0] == "ok" else ["err"]
    elif k == "read":
        src = io.BytesIO(it.inp)

        def f():
            t = env.OFXTree()
            t.parse(src)
            return t.header, t.convert()
        r = run_impl(f)
        res = ["ok", hdr_canon(r[1][0]), canon_inst(r[1][1])] if r[0] == "ok" else ["err"]
        if src.getvalue() != it.snap:
            notes.append("the BytesIO handed to OFXTree.parse holds different bytes after the call")
    elif k == "parse":
        src = io.BytesIO(it.inp)

        def g():
            t = env.OFXTree()
            root = t.parse(src)
            return t.header, root
        r = run_impl(g)
        res = ["ok", hdr_canon(r[1][0]), ["some", canon_tree(r[1][1])] if r[1][1] is not None else "none"] \
            if r[0] == "ok" else ["err"]
        if src.getvalue() != it.snap:
            notes.append("the BytesIO handed to OFXTree.parse holds different bytes after the call")
    elif k == "conv":
        r = run_impl(it.inp.convert, it.args[1])
        res = ["ok", canon_val(r[1])] if r[0] == "ok" else ["err"]
    elif k == "unconv":
        r = run_impl(it.inp.unconvert, it.args[1])
        res = ["ok", canon_val(r[1])] if r[0] == "ok" else ["err"]
    else:
        raise ValueError(k)
    if snap_input(it) != it.snap:
        notes.append({"totree": "to_etree changed the instance it was called on",
                      "write": "serialize changed the instance it was given",
                      "fromtree": "from_etree changed the element tree it was given",
                      "read": "the source bytes changed", "parse": "the source bytes changed",
                      "conv": "convert changed its converter or its argument",
                      "unconv": "unconvert changed its converter or its argument"}[k])
    if keep and r[0] == "ok" and k in ("fromtree", "read", "totree"):
        it.keep = r[1][1] if k == "read" else r[1]
        it.keep_canon = res[-1]
    return res, notes


def model_line(it, schema_enums):
    k = it.kind
    if k == "totree":
        return "totree " + it.snap
    if k == "write":
        version, old, new, pretty, close = it.args
        return "pipe.write %d %s %s %s %s %s" % (
            version, "none" if old is None else "(some %s)" % S(old), "none" if new is None else "(some %s)" % S(new),
            "T" if pretty else "F", "T" if close else "F", it.snap)
    if k == "fromtree":
        return "fromtree " + it.snap
    if k == "read":
        return "pipe.read " + B(it.inp)
    if k == "parse":
        return "pipe.parse " + B(it.inp)
    if k in ("conv", "unconv"):
        ty, v = it.args
        return "%s %s %s %s" % (k, ty, "T" if it.inp.required else "F", text(canon_val(v)))
    raise ValueError(k)


def model_value(it, rep):
    if rep.kind == "ok":
        return ["ok"] + list(rep.vals)
    if rep.kind == "err":
        return ["err"]
    return ["bad", rep.raw]


# ------------------------------------------------------------------------------------------------------
# generators
# ------------------------------------------------------------------------------------------------------
def gen_dt_text(rng, is_time, p_bad=0.25):
    date = None if is_time else D.gen_date(rng)
    form = rng.randrange(4)
    tod = D.gen_tod(rng) if (is_time or form > 0) else None
    ms = D.gen_ms(rng) if (tod is not None and form in (2, 3)) else None
    off = None
    if tod is not None and form in (1, 3) and rng.random() < 0.8:
        off = D.spell_offset(rng, rng.randint(-720, 840), rng.choice([None, "EST", "UTC", "x y", "PST"]))
    s = D.render(date, tod, ms, off)
    k = rng.random()
    if k < p_bad * 0.4:
        # reaches normalize_to_gmt (registers the handler) and then overflows the calendar
        return rng.choice(["00010101000000.000[+14]", "00010101", "00010101000000[12]", "99991231235959.999[-12]",
                           "99991231235959[-1]"]) if not is_time else s
    if k < p_bad:
        i = rng.randrange(len(s) + 1)
        return s[:i] + rng.choice("9a.[]:-+ x") + s[i + (rng.random() < 0.5):]
    return s


def gen_dt_value(rng, is_time):
    k = rng.random()
    if k < 0.08:
        return None
    if k < 0.2:
        return rng.choice([1, "x", 1.5, datetime.date(2020, 1, 2), D.FixedTz, [], decimal.Decimal(1), True,
                           datetime.time(1, 2, 3, tzinfo=UTC) if not is_time else datetime.datetime(2020, 1, 2, tzinfo=UTC)])
    tz = rng.choice([UTC, None, D.FixedTz(rng.randint(-720, 840) * 60 * 10 ** 6, rng.choice([None, "EST", "x"]))])
    if rng.random() < 0.15:
        tz = None
    h, mi, s = D.gen_tod(rng)
    us = rng.choice([0, 1000, 499, 500, 999499, 999500, 999999, rng.randint(0, 999999)])
    if is_time:
        return datetime.time(h, mi, s, us, tzinfo=tz)
    y, m, d = D.gen_date(rng)
    if rng.random() < 0.05:
        y, m, d = rng.choice([(9999, 12, 31), (1, 1, 1)])
    return datetime.datetime(y, m, d, h, mi, s, us, tzinfo=tz)


def class_level_converters(schema, M, limit=24):
    """(owner class name, attr, converter) for DateTime/Time converters declared on model classes"""
    out = []
    for c in schema["classes"]:
        for a in c["spec"]:
            if a["k"] in ("datetime", "time"):
                cls = getattr(M, c["name"], None)
                if cls is not None:
                    out.append((c["name"], a["name"], cls._superdict[a["name"]]))
    return out


def add_vendor(gen, rng, tree, by_name):
    """insert vendor / unknown children into aggregate nodes of `tree` (in place, on the harness' own copy)"""
    nodes = []

    def walk(e):
        c = by_name.get(e.tag)
        if c is not None and len(e) > 0:
            nodes.append((e, c))
        for ch in e:
            walk(ch)
    walk(tree)
    kinds = []
    for _ in range(rng.randint(1, 3)):
        if not nodes:
            break
        e, cc = rng.choice(nodes)
        kind = rng.choice(["vendor_leaf", "vendor_agg", "vendor_known_suffix", "leaf", "agg"])
        e.insert(rng.randint(0, len(e)), make_unknown(gen, rng, cc, kind))
        kinds.append(kind)
    return kinds


def corrupt_tree(rng, tree):
    leaves = [e for e in tree.iter() if len(e) == 0 and e.text]
    k = rng.randrange(4)
    if k == 0 and leaves:
        rng.choice(leaves).text = rng.choice(["20209999", "notanumber", "", "Q" * 400, "1,2,3"])
        return "bad_value"
    if k == 1:
        tree.tag = "NOSUCHAGGREGATE"
        return "unknown_root"
    if k == 2 and len(tree) > 1:
        tree.append(copy.deepcopy(tree[0]))
        return "out_of_order"
    sub = ET.SubElement(tree, "STATUS")
    ET.SubElement(sub, "CODE").text = "x"
    return "foreign_child"


def corrupt_bytes(rng, data):
    k = rng.randrange(5)
    if k == 0:
        return data[:rng.randrange(len(data))], "truncated"
    if k == 1:
        i = data.find(b"<OFX>")
        return data[i:] if i > 0 else b"<OFX>", "no_header"
    if k == 2:
        i = data.rfind(b"</")
        return data[:i] + b"</WRONG>" + data[data.find(b">", i) + 1:], "wrong_end_tag"
    if k == 3:
        return data.replace(b"<OFX>", b"<OFX><OFX>", 1), "extra_open"
    return b"OFXHEADER:999\r\n\r\n" + data, "bad_header"


def build_items(ctx, env, gen, classes, reps):
    rng = ctx.rng
    by_name = gen.by_name
    items = []
    for c in classes:
        for _ in range(reps):
            d, inst = gen.valid_instance(c["name"])
            if d is None:
                continue
            name = c["name"]
            items.append(Item("totree", name, inst))
            close, pretty = rng.choice([(True, False), (True, True), (False, False), (False, True)])
            version = rng.choice(V1) if (not close or rng.random() < 0.5) else rng.choice(V2)
            old = rng.choice([None, None, "OLD-uid_1"])
            new = rng.choice([None, "NEW-uid_2"])
            w = Item("write", name, inst, (version, old, new, pretty, close))
            items.append(w)
            r = run_impl(env.client.serialize, inst, version=version, oldfileuid=old, newfileuid=new,
                         prettyprint=pretty, close_elements=close)
            if r[0] == "ok":
                data = r[1]
                if rng.random() < 0.12:
                    data, why = corrupt_bytes(rng, data)
                    items.append(Item("read", name, data, desc=why))
                else:
                    items.append(Item("read", name, data))
                    if rng.random() < 0.5:
                        items.append(Item("parse", name, data))
            tree = inst.to_etree()
            desc = None
            if rng.random() < 0.6 or c.get("groom"):
                desc = ",".join(add_vendor(gen, rng, tree, by_name)) or None
            if rng.random() < 0.1:
                desc = corrupt_tree(rng, tree)
            items.append(Item("fromtree", name, tree, desc=desc))
    return items


def build_rule_items(ctx, gen, classes):
    """for every class with a hand-written validate_args: one instance per repeated child it declares (forced), as
    to_etree / from_etree items — the inputs whose fate depends on class-level tables that an error path might touch"""
    items = []
    for c in classes:
        if c.get("extra", "none") in ("none", None):
            continue
        for a in c["spec"]:
            if a["k"] != "listagg":
                continue
            d, inst = gen.valid_instance(c["name"], tries=8, force=[a["name"]])
            if d is None:
                continue
            items.append(Item("totree", c["name"], inst))
            try:
                items.append(Item("fromtree", c["name"], inst.to_etree(), desc="forced:" + a["name"]))
            except Exception:   # noqa
                pass
    return items


def build_conv_items(ctx, gen, n_fresh, n_texts):
    """convert / unconvert items on fresh and on class-level DateTime / Time converters"""
    from ofxtools import Types
    rng = ctx.rng
    convs = []
    for _ in range(n_fresh):
        t = rng.random() < 0.35
        convs.append(((Types.Time if t else Types.DateTime)(required=rng.random() < 0.4), "fresh"))
    cl = class_level_converters(ctx.schema, gen.M)
    rng.shuffle(cl)
    for owner, attr, conv in cl[:n_fresh]:
        convs.append((conv, f"{owner}.{attr}"))
    items = []
    for _ in range(n_texts):
        conv, where = rng.choice(convs)
        is_time = type(conv) is Types.Time
        ty = "time" if is_time else "datetime"
        if rng.random() < 0.55:
            v = gen_dt_text(rng, is_time) if rng.random() < 0.9 else rng.choice([None, "", 5, 1.5])
            items.append(Item("conv", ty, conv, (ty, v), desc=where))
        else:
            v = gen_dt_value(rng, is_time)
            if isinstance(v, type):
                v = 2.5
            items.append(Item("unconv", ty, conv, (ty, v), desc=where))
    return items


def build_scalar_conv_items(ctx, n):
    """convert / unconvert items on the scalar element types whose result could depend on ambient state: Decimal
    with a scale (quantize consults the thread's decimal context: rounding ties), Integer, Bool, String"""
    from ofxtools import Types
    from corr import types_common as T
    rng = ctx.rng
    convs = [Types.Decimal(sc) for sc in (0, 1, 2, 2, 3, 4)] + [Types.Decimal(), Types.Integer(4), Types.Bool(), Types.String(8)]
    ties = ["12345.665", "0.5", "1.5", "2.5", "-2.5", "0.125", "0.135", "-1.005", "1.00005", "2.675", "0.045", "7.5", "1e1",
            "1,25", "0.00015", "99.995", "-0.5"]
    items = []
    for _ in range(n):
        conv = rng.choice(convs)
        kind, _req = T.kind_of(conv, None)
        ty = text(kind) if not isinstance(kind, str) else kind
        tn = type(conv).__name__
        if tn == "Decimal":
            if rng.random() < 0.7:
                v = rng.choice(ties) if rng.random() < 0.7 else T.gen_dec_text(rng)
                if not T.text_in_model_domain(kind, v):
                    continue
                items.append(Item("conv", "decimal", conv, (ty, v), desc="fresh"))
            else:
                v = decimal.Decimal(rng.choice(ties).replace(",", "."))
                items.append(Item("conv", "decimal", conv, (ty, v), desc="fresh"))
        elif tn == "Integer":
            items.append(Item("conv", "integer", conv, (ty, rng.choice(["12", "-7", "9999", "10000", "0012", 5, "x"])), desc="fresh"))
        elif tn == "Bool":
            items.append(Item("conv", "bool", conv, (ty, rng.choice(["Y", "N", "y", True, "", None])), desc="fresh"))
        else:
            items.append(Item("conv", "string", conv, (ty, rng.choice(["a&amp;b", "12345678", "123456789", "é", ""])), desc="fresh"))
    return items


# ------------------------------------------------------------------------------------------------------
# workloads: library activity whose results are thrown away
# ------------------------------------------------------------------------------------------------------
class Workloads:
    def __init__(self, ctx, env, gen, classes, pool):
        from ofxtools import Types
        self.Types = Types
        self.env, self.gen, self.classes, self.pool = env, gen, classes, pool
        self.schema = ctx.schema
        self.cl_convs = class_level_converters(ctx.schema, gen.M)
        self.names = ["other_classes", "failing_documents", "failing_trees", "dt_fresh", "dt_class_level", "dt_overflow",
                      "copy_pickle", "drop_converters", "pretty_writes", "tree_reuse", "unconvert_mix", "construct_bad"]

    def run(self, name, seed):
        rng = random.Random(seed)
        try:
            getattr(self, "w_" + name)(rng)
        except Exception:       # workloads may fail; that is part of the history
            pass

    def _inst(self, rng):
        return rng.choice(self.pool)

    def w_other_classes(self, rng):
        for _ in range(rng.randint(1, 4)):
            inst = self._inst(rng)
            t = inst.to_etree()
            self.env.Aggregate.from_etree(t)

    def w_failing_documents(self, rng):
        for _ in range(rng.randint(1, 3)):
            inst = self._inst(rng)
            try:
                data = self.env.client.serialize(inst, version=rng.choice(V1), prettyprint=False, close_elements=True)
                data, _ = corrupt_bytes(rng, data)
                t = self.env.OFXTree()
                t.parse(io.BytesIO(data))
                t.convert()
            except Exception:
                pass

    def w_failing_trees(self, rng):
        for _ in range(rng.randint(1, 3)):
            t = self._inst(rng).to_etree()
            corrupt_tree(rng, t)
            try:
                self.env.Aggregate.from_etree(t)
            except Exception:
                pass

    def w_dt_fresh(self, rng):
        for _ in range(rng.randint(1, 5)):
            is_time = rng.random() < 0.3
            c = (self.Types.Time if is_time else self.Types.DateTime)(required=rng.random() < 0.5)
            for _ in range(rng.randint(1, 3)):
                try:
                    c.convert(gen_dt_text(rng, is_time))
                except Exception:
                    pass

    def w_dt_class_level(self, rng):
        for _ in range(rng.randint(1, 5)):
            owner, attr, c = rng.choice(self.cl_convs)
            is_time = type(c) is self.Types.Time
            try:
                c.convert(gen_dt_text(rng, is_time))
            except Exception:
                pass

    def w_dt_overflow(self, rng):
        c = self.Types.DateTime(required=True)
        for s in ("00010101000000.000[+14]", "99991231235959.999[-12]", "20200230", "20201301", None, 5):
            try:
                c.convert(s)
            except Exception:
                pass

    def w_copy_pickle(self, rng):
        inst = self._inst(rng)
        for f in (copy.copy, copy.deepcopy, lambda x: pickle.loads(pickle.dumps(x))):
            try:
                j = f(inst)
                j.to_etree()
            except Exception:
                pass
        for c in (self.Types.DateTime(), self.Types.Time(required=True), rng.choice(self.cl_convs)[2]):
            for f in (copy.copy, copy.deepcopy, lambda x: pickle.loads(pickle.dumps(x))):
                try:
                    k = f(c)
                    k.convert("20200101120000" if type(k) is self.Types.DateTime else "120000")
                except Exception:
                    pass

    def w_drop_converters(self, rng):
        c = self.Types.DateTime(required=rng.random() < 0.5)
        c.convert("20200101")          # the registry now holds a bound method of `c`
        del c
        gc.collect()

    def w_pretty_writes(self, rng):
        for _ in range(rng.randint(1, 3)):
            inst = self._inst(rng)
            try:
                self.env.client.serialize(inst, version=rng.choice(V1 + V2), prettyprint=True, close_elements=True)
            except Exception:
                pass

    def w_tree_reuse(self, rng):
        t = self.env.OFXTree()
        for _ in range(rng.randint(2, 3)):
            inst = self._inst(rng)
            try:
                data = self.env.client.serialize(inst, version=rng.choice(V1 + V2), prettyprint=False, close_elements=True)
                if rng.random() < 0.3:
                    data, _ = corrupt_bytes(rng, data)
                t.parse(io.BytesIO(data))
                t.convert()
            except Exception:
                pass

    def w_unconvert_mix(self, rng):
        for _ in range(rng.randint(1, 5)):
            is_time = rng.random() < 0.3
            c = rng.choice([(self.Types.Time if is_time else self.Types.DateTime)(required=rng.random() < 0.5)] +
                           [x[2] for x in self.cl_convs if (type(x[2]) is self.Types.Time) == is_time][:3])
            try:
                c.unconvert(gen_dt_value(rng, is_time))
            except Exception:
                pass

    def w_construct_bad(self, rng):
        inst = self._inst(rng)
        cls = type(inst)
        for kw in ({"nosuchattr": 1}, {k: object() for k in list(inst.__dict__)[:1]}):
            try:
                cls(**kw)
            except Exception:
                pass


# ======================================================================================================
# part A: op histories on converter instances against the model registry
# ======================================================================================================
def part_registry(ctx, view, gen):
    from ofxtools import Types
    rng = ctx.rng
    n_hist = ctx.budget(40, 400)
    cl = class_level_converters(ctx.schema, gen.M)
    histories = []
    for _ in range(n_hist):
        insts = []
        for _ in range(rng.randint(1, 4)):
            t = rng.random() < 0.3
            insts.append((Types.Time if t else Types.DateTime)(required=rng.random() < 0.5))
        for owner, attr, conv in rng.sample(cl, min(len(cl), rng.randint(0, 2))):
            insts.append(conv)
        ops = []
        for _ in range(rng.randint(1, 14)):
            i = rng.randrange(len(insts))
            is_time = type(insts[i]) is Types.Time
            if rng.random() < 0.5:
                v = gen_dt_text(rng, is_time, p_bad=0.35) if rng.random() < 0.85 else gen_dt_value(rng, is_time)
                ops.append(("conv", i, v))
            else:
                v = gen_dt_value(rng, is_time)
                if rng.random() < 0.08:
                    v = gen_dt_value(rng, not is_time)
                ops.append(("unconv", i, v))
        histories.append((insts, [(k, i, 2.5 if isinstance(v, type) else v) for k, i, v in ops]))
    lines = []
    for insts, ops in histories:
        enc = []
        for k, i, v in ops:
            c = insts[i]
            enc.append("(%s %d %s %s %s)" % (k, i, "T" if type(c) is Types.Time else "F", "T" if c.required else "F",
                                            text(canon_val(v))))
        lines.append("pur.run (" + " ".join(enc) + ")")
    replies = ctx.model.ask(lines)
    for (insts, ops), rep in zip(histories, replies):
        view.reset()
        ids = {id(c): i for i, c in enumerate(insts)}
        outs = []
        for k, i, v in ops:
            r = run_impl(insts[i].convert if k == "conv" else insts[i].unconvert, v)
            outs.append(["ok", canon_val(r[1])] if r[0] == "ok" else ["err"])
        case = {"op": "pur.run", "converters": [repr(c) for c in insts],
                "ops": [[k, i, repr(v)] for k, i, v in ops]}
        if not rep.ok:
            ctx.compare("pur.run", case, "ok", rep.raw)
            continue
        m_outs = [[o[0], o[1]] if o[0] == "ok" else ["err"] for o in rep.vals[0]]
        ctx.compare("pur.run:results", case, outs, m_outs)
        # real tables
        impl_state = []
        for disp in (view.dt, view.tm):
            dflt, reg, cache = view.state(disp, ids)
            impl_state.append([dflt, sorted(reg.items()), sorted(cache.items())])
        m_state = []
        for d in rep.vals[1]:
            dflt, reg, cache, _table = d
            m_state.append([dflt, sorted((k, h) for k, h in reg), sorted((k, h) for k, h in cache)])
        impl_state = [[d, [list(x) for x in r], [list(x) for x in c]] for d, r, c in impl_state]
        m_state = [[d, [list(x) for x in r], [list(x) for x in c]] for d, r, c in m_state]
        ctx.compare("pur.run:registry+cache", case, impl_state, m_state)
        impl_tab = [sorted(view.dispatch_table(disp, ids).items()) for disp in (view.dt, view.tm)]
        m_tab = [sorted((k, h) for k, h in d[3]) for d in rep.vals[1]]
        ctx.compare("pur.run:dispatch(cls)", case, [[list(x) for x in t] for t in impl_tab],
                    [[list(x) for x in t] for t in m_tab])
        ctx.stat("registry:bound" if impl_state[0][1] and any(h[1] != "none" for _, h in impl_state[0][1]) else "registry:plain")
        if rep.vals[2] != "T":
            ctx.disagree("pur.run:inertB", case, "T", rep.vals[2])
        # the property on the implementation: every result equals the result of the same call in the initial state
        for (k, i, v), o in zip(ops, outs):
            view.reset()
            fresh = (Types.Time if type(insts[i]) is Types.Time else Types.DateTime)(required=insts[i].required)
            r = run_impl(fresh.convert if k == "conv" else fresh.unconvert, v)
            alone = ["ok", canon_val(r[1])] if r[0] == "ok" else ["err"]
            if alone != o:
                ctx.violate("converter_result_depends_on_history", dict(case, at=[k, i, repr(v)]),
                            f"{k} of {v!r} gives {o} after the history but {alone} on a fresh converter alone",
                            {"op": k})
    view.reset()
    ctx.sample({"part": "registry histories", "histories": len(histories),
                "example": [[k, i, repr(v)] for k, i, v in histories[0][1]][:6]})


# ======================================================================================================
# part B: the pipeline items
# ======================================================================================================
def judge(ctx, it, res, notes, cond, extra=None):
    """compare a conditioned run with the model and with the implementation's own first result"""
    case = case_of(it)
    ctx.stat(f"{cond.split(':')[0]}:{it.kind}:{res[0]}")
    ctx.compare(it.kind, case, res, it.model)
    if res != it.base:
        ctx.violate(f"{it.kind}_result_depends_on_{cond.split(':')[0]}", dict(case, condition=cond, **(extra or {})),
                    f"{it.kind} of the same {it.cls} input gives a different result {cond} "
                    f"(first run alone: {str(it.base)[:200]}; now: {str(res)[:200]})",
                    {"op": it.kind, "condition": cond.split(":")[0]})
    for n in notes:
        ctx.violate(f"{it.kind}_modifies_input", dict(case, condition=cond, **(extra or {})), f"{it.cls}: {n}",
                    {"op": it.kind})


def run_threads(env, items, nthreads, switch, rounds, lanes=False):
    """-> list of (item, result, notes) per execution, or raises; `lanes`: items is already one list per thread"""
    chunks = items if lanes else [items[i::nthreads] for i in range(nthreads)]
    nthreads = len(chunks)
    results = [None] * nthreads
    errors = []
    barrier = threading.Barrier(nthreads)

    def worker(i):
        out = []
        try:
            barrier.wait()
            for _ in range(rounds):
                for it in chunks[i]:
                    res, notes = exec_item(env, it)
                    out.append((it, res, notes))
        except Exception as e:  # noqa
            import traceback
            errors.append(traceback.format_exc())
        results[i] = out
    old = sys.getswitchinterval()
    sys.setswitchinterval(switch)
    try:
        ts = [threading.Thread(target=worker, args=(i,)) for i in range(nthreads)]
        for t in ts:
            t.start()
        for t in ts:
            t.join()
    finally:
        sys.setswitchinterval(old)
    if errors:
        raise RuntimeError("worker crashed:\n" + errors[0])
    return [x for r in results for x in r]


def run(ctx):
    with warnings.catch_warnings():
        warnings.simplefilter("ignore")
        _run(ctx)


def _run(ctx):
    import ofxtools.models  # noqa
    rng = ctx.rng
    schema = ctx.schema
    env = Env()
    view = RegView()
    import_regs = all_dispatchers()
    if not view.is_initial():
        ctx.notes.append("DateTime.unconvert was not in its import state when the check started; reset by the harness")
        view.reset()
        import_regs = all_dispatchers()
    gen = Gen(schema, rng, max_depth=2)
    gen.p_tz = 0.5       # date-times with different GMT offsets: what a per-converter (shared) scratch value would mix up
    classes = concrete_classes(schema)
    shared0 = snapshot_shared()

    # ---- A: registry histories -----------------------------------------------------------------------
    part_registry(ctx, view, gen)

    # ---- B: items -------------------------------------------------------------------------------------
    t0 = time.time()
    reps = 1
    sel = classes
    if not ctx.thorough and float(__import__("os").environ.get("VERIF_BUDGET_SCALE", "1")) <= 1:
        reps = 1
    elif ctx.thorough:
        reps = 2
    items = build_items(ctx, env, gen, sel, reps)
    items += build_conv_items(ctx, gen, 12, ctx.budget(400, 2000))
    items += build_scalar_conv_items(ctx, ctx.budget(150, 800))
    items += build_rule_items(ctx, gen, classes)
    # lanes for the aligned thread plans: per class one input set per thread
    aligned = {}
    by = {c["name"]: c for c in classes}
    for n in ([4] if not ctx.thorough else [4, 16]):
        pick = [c for c in classes if c.get("groom")] + rng.sample(classes, min(len(classes), 30 if not ctx.thorough else (60 if n == 4 else 24)))
        lanes = [build_items(ctx, env, gen, pick, 1) for _ in range(n)]
        aligned[n] = lanes
        for lane in lanes:
            items += lane
    pool = [it.inp for it in items if it.kind == "totree"]
    wl = Workloads(ctx, env, gen, classes, pool)

    lines = [model_line(it, schema["enums"]) for it in items]
    replies = ctx.model.ask(lines)
    # (a) first run, alone, single-threaded — with the dispatch tables in their import state
    view.reset()
    for it, rep in zip(items, replies):
        it.model = model_value(it, rep)
        res, notes = exec_item(env, it, keep=True)
        it.base = res
        case = case_of(it)
        ctx.stat(f"alone:{it.kind}:{res[0]}")
        ctx.compare(it.kind, case, res, it.model)
        for n in notes:
            ctx.violate(f"{it.kind}_modifies_input", dict(case, condition="alone"), f"{it.cls}: {n}", {"op": it.kind})
    ctx.sample({"part": "items", "count": len(items), "kinds": sorted({it.kind for it in items}),
                "first": case_of(items[0])["cls"]})
    prob = view.inert_problems(import_regs)
    if prob:
        ctx.violate("dispatch_registry_not_inert", {"after": "first runs", "problems": prob[:5]},
                    "a dispatch registry is no longer observationally what it was at import: " + prob[0])

    tb = time.time()
    ctx.notes.append(f"items {len(items)}; generation + model + first runs {round(tb - t0, 1)} s")
    # (b) after preceding workloads
    order = list(items)
    rng.shuffle(order)
    n_hist = min(len(order), 4000 if ctx.thorough else 700)
    for it in order[:n_hist]:
        hist = [(rng.choice(wl.names), rng.getrandbits(32)) for _ in range(rng.randint(1, 3))]
        for name, seed in hist:
            wl.run(name, seed)
            ctx.stat("workload:" + name)
        res, notes = exec_item(env, it)
        judge(ctx, it, res, notes, "after-history", {"history": [[n, s] for n, s in hist], "threads": 1})
    prob = view.inert_problems(import_regs)
    if prob:
        ctx.violate("dispatch_registry_not_inert", {"after": "workloads", "problems": prob[:5]},
                    "a dispatch registry is no longer observationally what it was at import: " + prob[0])

    # (b') a systematic failing history: every class's own rejection paths (no arguments at all, an empty element,
    # a valid document stripped of its repeated members / of everything but its first child — the inputs that reach
    # the hand-written `validate_args` error branches), then every item again
    n_rej = 0
    for it0 in [x for x in items if x.kind == "totree"]:
        inst = it0.inp
        kcls = type(inst)
        attempts = [lambda: kcls(), lambda: env.Aggregate.from_etree(ET.Element(kcls.__name__))]
        try:
            tree = inst.to_etree()
            lm = {a["name"].upper() for a in by[kcls.__name__]["spec"] if a["k"] in ("listagg", "listelem")} if kcls.__name__ in by else set()
            t1 = copy.deepcopy(tree)
            for ch in list(t1):
                if ch.tag in lm:
                    t1.remove(ch)
            t2 = copy.deepcopy(tree)
            for ch in list(t2)[1:]:
                t2.remove(ch)
            attempts += [lambda t1=t1: env.Aggregate.from_etree(t1), lambda t2=t2: env.Aggregate.from_etree(t2),
                         lambda: kcls(**{k: v for k, v in inst.__dict__.items() if v is not None})]
        except Exception:   # noqa
            pass
        for f in attempts:
            try:
                f()
            except Exception:   # noqa
                n_rej += 1
    ctx.stat("rejection-history:rejected", n_rej)
    for it in items:
        res, notes = exec_item(env, it)
        judge(ctx, it, res, notes, "after-rejections", {"history": "every class: no arguments / empty element / stripped documents", "threads": 1})

    tc = time.time()
    ctx.notes.append(f"after-history runs {round(tc - tb, 1)} s")
    # (c) repetition: the same call again and again, and back to back with its neighbours
    n_rep = ctx.budget(2, 3)
    for it in order[: (4000 if ctx.thorough else 450)]:
        for j in range(n_rep):
            res, notes = exec_item(env, it)
            judge(ctx, it, res, notes, f"repeated:{j + 2}", {"threads": 1})

    ctx.notes.append(f"repetition {round(time.time() - tc, 1)} s")
    # (d) threads
    plans = [(1, 0.005, 1), (2, 1e-6, 1), (4, 1e-6, 1), (3, 1e-5, 1)]
    if ctx.thorough:
        plans = [(1, 0.005, 1), (2, 1e-6, 2), (4, 1e-6, 2), (8, 1e-6, 2), (16, 1e-6, 3), (16, 1e-4, 2), (16, 0.005, 2),
                 (7, 1e-5, 2), (12, 1e-6, 2)]
    budget_s = 16 if not ctx.thorough else 300
    t_thr = time.time()
    for nthreads, switch, rounds in plans:
        if time.time() - t_thr > budget_s:
            ctx.notes.append(f"thread plans cut short at {nthreads} threads (time budget)")
            break
        sub = list(items)
        rng.shuffle(sub)
        sub = sub[:800] if not ctx.thorough else sub[:5000]
        out = run_threads(env, sub, nthreads, switch, rounds)
        for it, res, notes in out:
            judge(ctx, it, res, notes, f"threads:{nthreads}@{switch}", {"threads": nthreads, "switchinterval": switch})
        ctx.stat(f"thread-plan:{nthreads}x{switch}", len(out))
        prob = view.inert_problems(import_regs)
        if prob:
            ctx.violate("dispatch_registry_not_inert", {"after": f"{nthreads} threads", "problems": prob[:5]},
                        "a dispatch registry is no longer observationally what it was at import: " + prob[0])
            break

    # (d'') aligned: every thread converts / writes the SAME classes in the same order at the same time, each on
    # its own inputs — the schedule that makes per-class shared state (descriptors, class attributes) collide
    for nthreads, switch, rounds in ([(4, 1e-6, 2)] if not ctx.thorough else [(4, 1e-6, 3), (16, 1e-6, 3), (16, 1e-5, 2)]):
        lanes = aligned.get(nthreads) or aligned[max(aligned)]
        out = run_threads(env, lanes, nthreads, switch, rounds, lanes=True)
        for it, res, notes in out:
            judge(ctx, it, res, notes, f"threads:{nthreads}@{switch}", {"threads": nthreads, "switchinterval": switch,
                                                                         "aligned": True})
        ctx.stat(f"thread-plan-aligned:{nthreads}x{switch}", len(out))

    # (d') converters only, hammered from threads: register / clear / dispatch interleavings
    conv_items = [it for it in items if it.kind in ("conv", "unconv")]
    for nthreads, switch, rounds in ([(4, 1e-6, 3)] if not ctx.thorough else [(4, 1e-6, 10), (16, 1e-6, 10), (16, 1e-5, 10)]):
        out = run_threads(env, conv_items, nthreads, switch, rounds)
        for it, res, notes in out:
            judge(ctx, it, res, notes, f"threads:{nthreads}@{switch}", {"threads": nthreads, "switchinterval": switch,
                                                                         "only": "converters"})
        prob = view.inert_problems(import_regs)
        if prob:
            ctx.violate("dispatch_registry_not_inert", {"after": f"{nthreads} converter threads", "problems": prob[:5]},
                        "a dispatch registry is no longer observationally what it was at import: " + prob[0])

    # (e') results handed out earlier are still what they were
    for it in items:
        if it.keep is not None:
            now = canon_tree(it.keep) if it.kind == "totree" else canon_inst(it.keep)
            ctx.evaluations += 1
            if now != it.keep_canon:
                ctx.violate(f"{it.kind}_result_changed_later", case_of(it),
                            f"the object returned by the first {it.kind} of {it.cls} no longer has the content it was "
                            f"returned with", {"op": it.kind})
    # shared state of the package
    gc.collect()
    shared1 = snapshot_shared()
    d = diff_shared(shared0, shared1)
    ctx.evaluations += 1
    if d:
        ctx.violate("shared_state_written", {"changed": d[:20]},
                    "module / class / converter state of the package changed during parsing, converting or writing: "
                    + "; ".join(d[:4]), {"first": d[0].split(" ")[0]})
    view.reset()
    ctx.notes.append(f"threads {round(time.time() - t_thr, 1)} s; part B {round(time.time() - t0, 1)} s")


def replay(ctx, data):
    """re-run a stored case: sequential histories are replayed exactly (workload names + seeds); threaded cases are
    re-run with the stored thread count / switch interval on freshly generated items (schedules are not reproducible)"""
    case = data.get("case") or data.get("first_disagreement") or {}
    print({k: (str(v)[:300]) for k, v in case.items()})
    if case.get("history") and case.get("op") in ("read", "parse", "fromtree"):
        with warnings.catch_warnings():
            warnings.simplefilter("ignore")
            env = Env()
            if case["op"] == "fromtree":
                it = Item("fromtree", case["cls"], ET.fromstring(case["tree"]))
            else:
                it = Item(case["op"], case["cls"], case["file"].encode("utf-8"))
            base, _ = exec_item(env, it)
            gen = Gen(ctx.schema, ctx.rng, max_depth=2)
            pool = []
            for c in concrete_classes(ctx.schema)[:60]:
                d, inst = gen.valid_instance(c["name"])
                if d is not None:
                    pool.append(inst)
            wl = Workloads(ctx, env, gen, concrete_classes(ctx.schema), pool)
            for name, seed in case["history"]:
                wl.run(name, seed)
            res, notes = exec_item(env, it)
            print("alone:", str(base)[:300])
            print("after history:", str(res)[:300], notes)
            if res != base or notes:
                ctx.violate(data.get("tag", "replayed"), case, "replayed: result differs after the stored history")
    else:
        _run(ctx)
