"""
C11, wire-level part and date-time leaves.

* the serializer module (`corr/serialize.py`): every writer on generated trees, the wire clause of C11 (no raw `<`,
  every `&` starts an entity) checked on the implementation's own bytes by an independent tokenizer;
* the date-time / time element types (`corr/C09.py`): every written text is in the OFX notation
  `[YYYYMMDD]HHMMSS.XXX[±h(.mm)?(:name)?]` and denotes the value's instant.
Violations are recorded under the property being checked (C11) with the tags of those modules.
"""


def run_wire(ctx):
    from corr import serialize, C09
    serialize.run(ctx)
    C09.run(ctx)
