"""
C11, wire-level part and date-time leaves.

* the serializer module (`corr/serialize.py`): every writer on generated trees, the wire clause of C11 (no raw `<`,
  every `&` starts an entity) checked on the implementation's own bytes by an independent tokenizer;
* the date-time / time element types (`corr/C09.py`): every written text is in the OFX notation
  `[YYYYMMDD]HHMMSS.XXX[±h(.mm)?(:name)?]` and denotes the value's instant.
Violations are recorded under the property being checked (C11) with the tags of those modules.
"""


def run_wire(ctx):
    from corr import serialize, C09
    serialize.run(ctx)
    C09.run(ctx)


# --------------------------------------------------------------------------------------------------
# instances grown after construction: members added through the list API do not pass `convert`, so the write-time
# check of the list element's type is the only thing between them and the wire ("refused rather than written")
# --------------------------------------------------------------------------------------------------
def run_grown_lists(ctx):
    import copy
    import xml.etree.ElementTree as ET
    from gen.instances import Gen
    from corr import types_common as T
    from corr.agg_common import quiet, totree_line, model_ok_err
    from codec import canon_tree
    schema, rng = ctx.schema, ctx.rng
    enums = schema["enums"]
    gen = Gen(schema, rng, max_depth=1)
    wrong = T.wrong_type_values(rng)
    reps = ctx.budget(1, 4)
    lines, meta = [], []
    for c in schema["classes"]:
        if not c.get("element_list") or c["abstract"]:
            continue
        la = [a for a in c["spec"] if a["k"] == "listelem"]
        if len(la) != 1:
            continue
        attr = la[0]["name"]
        cls = getattr(gen.M, c["name"])
        conv = cls._superdict[attr].converter
        kind, _ = T.kind_of(conv, enums)
        kn = T.kname(kind)
        for _ in range(reps):
            d, inst = gen.valid_instance(c["name"])
            if d is None:
                continue
            cands = rng.sample(wrong, ctx.budget(10, len(wrong)))
            if kn == "string":
                n = conv.length or 8
                cands += ["x" * n, "x" * (n + 1), "é" * (n + 1), "a&b<c" + "y" * n]
            if kn in ("oneof", "enum"):
                cands += list(conv.valid)[:3] + ["NOT_A_TOKEN", list(conv.valid)[0].lower(), list(conv.valid)[0] + " "]
            if kn == "integer":
                n = conv.length or 4
                cands += [10 ** n - 1, 10 ** n, -(10 ** n - 1), -(10 ** n)]
            for j, x in enumerate(cands):
                for how in (("append", "iadd", "insert") if j % 5 == 0 else ("append",)):
                    grown = copy.deepcopy(inst)
                    try:
                        if how == "append":
                            list.append(grown, x) if type(grown).append is list.append else grown.append(x)
                        elif how == "iadd":
                            grown += [x]
                        else:
                            grown.insert(0, x)
                    except Exception:  # noqa
                        ctx.stat("grown:refused_by_list_api")
                        continue
                    r = quiet(grown.to_etree)
                    case = {"cls": c["name"], "attr": attr, "member": repr(x), "how": how}
                    ctx.evaluations += 1
                    ctx.stat("grown:" + r[0])
                    ctx.mark([c["name"], repr(x), how])
                    if r[0] == "ok":
                        for leaf in r[1].findall(attr.upper()):
                            t = leaf.text or ""
                            if t == "":
                                ctx.stat("grown:empty_element")       # no data written (a None member): not a data element
                                continue
                            ok = T.ref_lex(kind, t, enums)
                            if ok is False:
                                ctx.violate("grown_list_member_written_invalid", dict(case, text=t),
                                            f"{c['name']}: member {x!r} added with {how} was written as {t!r}, which is not "
                                            f"valid text of the list element's type", {"kind": kn})
                    # the model on the same held values (only where the value is in the model's value domain)
                    if T.value_in_model_domain(kind, x) and type(x) in (str, int, bool, type(None)) and how == "append":
                        meta.append((case, r))
                        lines.append(totree_line(grown))
    replies = ctx.model.ask(lines)
    for (case, r), rep in zip(meta, replies):
        impl = ["ok", canon_tree(r[1])] if r[0] == "ok" else ["err"]
        ctx.compare("totree_grown", case, impl, model_ok_err(rep))


_run_wire_base = run_wire


def run_wire(ctx):  # noqa: F811
    _run_wire_base(ctx)
    run_grown_lists(ctx)
