"""
C13 — every child a model class declares can actually be built, written and read back.

Finite and exhaustive in both tiers: every concrete class x every declared child.
impl   = construct an instance containing the child -> to_etree -> from_etree
model  = Agg.construct / toEtree / fromEtree over the generated schema (ops construct, totree, fromtree)
oracle = the child is written under its OFX tag and read back into the same attribute, the read-back
         model equals the original; every exclusivity group rejects two of its members; the static
         clauses (driver op `wf.report`, = the Gen-obligation `schema_wf_except_known`) hold for every
         class — each failing (class, clause) is turned into the concrete probe the clause stands for.
"""
import copy
import xml.etree.ElementTree as ET

import codec
from codec import canon_inst, canon_tree, text
from proto import dstr
from gen.instances import Gen, concrete_classes
from corr.agg_common import blame_class, fromtree_line, totree_line, quiet, model_ok_err

RULE = ("exhaustive: every concrete class x every declared child (element, sub-aggregate, repeated member) — "
        "an instance containing that child is generated (other optional parts random), written and read back; "
        "every class x every exclusivity group (two members set); every (class, clause) of the static "
        "well-formedness report; non-trivial and distinct by (class, child)")


def _holds(inst, a):
    if a["k"] in ("listagg", "listelem"):
        return len(list(list.__iter__(inst))) > 0 if a["k"] == "listelem" else any(
            type(m).__name__.lower() == a["name"] for m in list.__iter__(inst))
    return inst.__dict__.get(a["name"]) is not None


def run(ctx):
    from ofxtools.models.base import Aggregate
    schema = ctx.schema
    gen = Gen(schema, ctx.rng, max_depth=1, p_opt=0.3)
    by_name = gen.by_name
    classes = concrete_classes(schema)
    cidx = codec.class_index()
    lines, meta = [], []
    # declared children whose class the package does not export: from_etree looks classes up by tag in the package
    # namespace, so such a child can be built and written but never read back (the model cannot even name the class)
    import importlib
    for u in schema.get("unexported_targets", []):
        case = {"cls": u["owner"], "child": u["attr"], "kind": u["kind"], "target": u["target"]}
        ctx.evaluations += 1
        try:
            tcls = getattr(importlib.import_module(u["module"]), u["target"])
            r = quiet(Aggregate.from_etree, ET.Element(tcls.__name__))
            found = not (r[0] == "err" and not hasattr(gen.M, tcls.__name__))
        except Exception:   # noqa
            found = False
        if not found:
            ctx.violate("declared_child_class_not_found_by_tag", case,
                        f"{u['owner']}.{u['attr']}: the child's class {u['target']} is not exported by ofxtools.models, so "
                        f"Aggregate.from_etree(<{u['target']}>) cannot find it by its tag", {"cls": u["owner"], "attr": u["attr"]})
    for c in classes:
        name = c["name"]
        cls = getattr(gen.M, name)
        # the class is found by its tag
        if getattr(gen.M, name, None) is not cls:
            ctx.violate("class_not_found_by_tag", {"cls": name}, f"{name} is not found under its tag")
        for a in c["spec"]:
            if a["k"] == "unsupported":
                continue
            attr = a["name"]
            d, inst = gen.valid_instance(name, tries=12, force=[attr])
            for _retry in range(6):
                # the probe is about the class, not about the generator: insist on an instance that holds the child
                if d is None or _holds(inst, a):
                    break
                ctx.stat("generator_retry")
                d, inst = gen.valid_instance(name, tries=12, force=[attr])
            case = {"cls": name, "child": attr, "kind": a["k"]}
            if d is None:
                ctx.evaluations += 1
                ctx.violate("child_cannot_be_constructed", case,
                            f"{name}.{attr}: no instance containing this child could be constructed ({inst!r})",
                            {"cls": name, "attr": attr})
                continue
            r_tree = quiet(inst.to_etree)
            meta.append(("totree", case, inst, r_tree))
            lines.append(totree_line(inst))
            if r_tree[0] != "ok":
                ctx.violate("child_cannot_be_written", case, f"{name}.{attr}: to_etree raised", {"cls": name, "attr": attr})
                continue
            tree = r_tree[1]
            # written under the child's tag?
            if a["k"] in ("listagg", "sub"):
                want_tag = a["clsname"]
            else:
                want_tag = attr.upper()
            if c.get("ungroom") and want_tag == c["ungroom"][0]:
                want_tag = c["ungroom"][1]
            if not any(ch.tag == want_tag for ch in tree):
                ctx.violate("child_not_written_under_its_tag", case,
                            f"{name}.{attr}: no <{want_tag}> child in {[ch.tag for ch in tree]}", {"cls": name, "attr": attr})
            r_back = quiet(Aggregate.from_etree, copy.deepcopy(tree))
            meta.append(("fromtree", case, inst, r_back))
            lines.append(fromtree_line(tree))
            if r_back[0] != "ok":
                ctx.violate("child_not_read_back", case,
                            f"{name}.{attr}: the library's reader rejects what its writer wrote",
                            {"cls": blame_class(inst), "attr": attr})
            else:
                back = r_back[1]
                if canon_inst(back) != canon_inst(inst):
                    # which attribute was lost?
                    if a["k"] in ("listagg", "listelem"):
                        lost = len(list(list.__iter__(back))) != len(list(list.__iter__(inst)))
                    else:
                        lost = back.__dict__.get(attr) is None
                    ctx.violate("child_silently_skipped" if lost else "readback_differs", case,
                                f"{name}.{attr}: read-back model differs from the original", {"cls": name, "attr": attr})
    # exclusivity groups in force
    for c in classes:
        name = c["name"]
        cls = getattr(gen.M, name)
        attrs = {a["name"]: a for a in c["spec"]}
        groups = c["opt_mutex"] + c["req_mutex"] + [g for g in c["decl_opt_mutex"] + c["decl_req_mutex"]
                                                    if g not in c["opt_mutex"] + c["req_mutex"]]
        for g in groups:
            case = {"cls": name, "group": g}
            bad = [m for m in g if m not in attrs or attrs[m]["required"] or attrs[m]["k"] in ("listagg", "listelem", "unsupported")]
            ctx.evaluations += 1
            if bad:
                ctx.violate("mutex_names_bad_member", case,
                            f"{name}: exclusivity group {g} names {bad} (missing, required, repeated or unsupported child) — it can never fire for them",
                            {"cls": name, "members": bad})
                continue
            ms = g[:2]
            d, inst = gen.valid_instance(name, tries=12)
            if d is None:
                continue
            kwargs = {n: (gen.build(v) if isinstance(v, tuple) else v) for n, v in d[2].items()}
            args = [gen.build(x) if isinstance(x, tuple) else x for x in d[1]]
            for m in ms:
                if kwargs.get(m) is None:
                    a = attrs[m]
                    kwargs[m] = gen.valid_instance(a["clsname"])[1] if a["k"] == "sub" else gen.value(a)
            r = quiet(cls, *args, **kwargs)
            ctx.mark(["mutex", name, g])
            if r[0] == "ok":
                ctx.violate("mutex_not_in_force", case, f"{name}: both of {ms} accepted", {"cls": name})
    replies = ctx.model.ask(lines)
    for (op, case, inst, r), rep in zip(meta, replies):
        if op == "totree":
            impl = ["ok", canon_tree(r[1])] if r[0] == "ok" else ["err"]
        else:
            impl = ["ok", canon_inst(r[1])] if r[0] == "ok" else ["err"]
        ctx.stat(op + ":" + impl[0])
        ctx.compare(op, case, impl, model_ok_err(rep))
        ctx.sample({"op": op, "case": case, "impl": impl[0]}, limit=6)
    # static report
    rep = ctx.model.ask1("wf.report")
    ctx.evaluations += 1
    failing = [(dstr(x[0]), x[1]) for x in rep.vals[0]] if rep.ok else [("?", "driver")]
    ctx.notes.append({"wf_report": failing})
    for cname, clause in failing:
        probe_clause(ctx, gen, cname, clause)
    ctx.exhaustive.append("every concrete class x every declared child; every class x every exclusivity group")
    witness_probe(ctx, gen, classes)


# ---------------------------------------------------------------- constructibility witness (EXT-C13)
# The model's specification `Spec/Witness.lean: mkWith` gives, for every class and declared child, a *description* of
# a call `Cls(*args, **kwargs)` (canonical values, required children filled in recursively, the exactly-one groups and
# the hand-coded validate_args rules satisfied) and the theorem `Gen.C13_generated_constructible` says the model's
# constructors accept it and the instance holds the child, is written with the child under its tag and is read back.
# Here the very same description is run through the REAL constructors and the real writer / reader.
def _py_value(n, M, UTC):
    import datetime
    import decimal
    from proto import dstr
    if n == "none":
        return None
    k = n[0]
    if k == "b":
        return n[1] == "T"
    if k == "i":
        return int(n[1])
    if k == "s":
        return dstr(n[1])
    if k == "d":
        digits = tuple(int(ch) for ch in n[2])
        return decimal.Decimal((1 if n[1] == "T" else 0, digits, int(n[3])))
    if k == "dt":
        assert n[8] != "none" and int(n[8][1][1]) == 0, n        # the canonical values are in UTC
        return datetime.datetime(int(n[1]), int(n[2]), int(n[3]), int(n[4]), int(n[5]), int(n[6]), int(n[7]), tzinfo=UTC)
    if k == "tm":
        assert n[5] != "none" and int(n[5][1][1]) == 0, n
        return datetime.time(int(n[1]), int(n[2]), int(n[3]), int(n[4]), tzinfo=UTC)
    if k == "inst":
        return _py_build(n, M, UTC)
    raise ValueError(f"unexpected value in a description: {n!r}")


def _py_build(desc, M, UTC, names=None):
    """description (inst idx ((name value)…) (member…)) -> the real `Cls(*members, **kwargs)`, bottom-up"""
    from proto import dstr
    names = names or _py_build.names
    cls = getattr(M, names[int(desc[1])])
    kwargs = {dstr(kv[0]): _py_value(kv[1], M, UTC) for kv in desc[2]}
    args = [_py_value(m, M, UTC) for m in desc[3]]
    return cls(*args, **kwargs)


def witness_probe(ctx, gen, classes):
    from ofxtools.models.base import Aggregate
    from proto import S as hexs, dstr
    M, UTC = gen.M, gen.UTC
    _py_build.names = {c["idx"]: c["name"] for c in ctx.schema["classes"]}
    pairs, lines = [], []
    for c in classes:
        for a in c["spec"]:
            if a["k"] == "unsupported":
                continue
            pairs.append((c, a))
            lines.append(f"witness.with {c['idx']} {hexs(a['name'])}")
    # the obligation's own enumeration of (class, child) pairs is the one used here
    rep = ctx.model.ask1("witness.pairs")
    mine = [[str(c["idx"]), hexs(a["name"])] for c, a in pairs]
    ctx.compare("witness.pairs", {"n": len(mine)}, mine, rep.vals[0] if rep.ok else ["bad", rep.raw])
    replies = ctx.model.ask(lines)
    for (c, a), rep in zip(pairs, replies):
        name, attr = c["name"], a["name"]
        case = {"cls": name, "child": attr, "kind": a["k"], "via": "witness"}
        if not rep.ok or rep.vals[0] == "none":
            ctx.evaluations += 1
            ctx.disagree("witness.with", case, ["description expected"], ["none", rep.raw[:200]])
            continue
        desc = rep.vals[0][1]
        built = rep.vals[1]
        r = quiet(_py_build, desc, M, UTC)
        impl = ["ok", canon_inst(r[1])] if r[0] == "ok" else ["err"]
        model = ["ok", built[1]] if built[0] == "ok" else ["err"]
        ctx.stat("witness:" + impl[0])
        ctx.compare("witness.with", case, impl, model)
        if r[0] != "ok":
            ctx.violate("child_cannot_be_constructed", case,
                        f"{name}.{attr}: the canonical description holding this child is rejected by the constructors ({r[1]})",
                        {"cls": name, "attr": attr})
            continue
        inst = r[1]
        if not _holds(inst, a):
            ctx.violate("child_not_held", case, f"{name}.{attr}: the constructed instance does not hold the child",
                        {"cls": name, "attr": attr})
            continue
        r_tree = quiet(inst.to_etree)
        if r_tree[0] != "ok":
            ctx.violate("child_cannot_be_written", case, f"{name}.{attr}: to_etree raised", {"cls": name, "attr": attr})
            continue
        tree = r_tree[1]
        want_tag = a["clsname"] if a["k"] in ("listagg", "sub") else attr.upper()
        if c.get("ungroom") and want_tag == c["ungroom"][0]:
            want_tag = c["ungroom"][1]
        if not any(ch.tag == want_tag for ch in tree):
            ctx.violate("child_not_written_under_its_tag", case,
                        f"{name}.{attr}: no <{want_tag}> child in {[ch.tag for ch in tree]}", {"cls": name, "attr": attr})
        r_back = quiet(Aggregate.from_etree, copy.deepcopy(tree))
        if r_back[0] != "ok":
            ctx.violate("child_not_read_back", case, f"{name}.{attr}: the library's reader rejects what its writer wrote",
                        {"cls": blame_class(inst), "attr": attr})
        elif canon_inst(r_back[1]) != canon_inst(inst):
            back = r_back[1]
            if a["k"] in ("listagg", "listelem"):
                lost = len(list(list.__iter__(back))) != len(list(list.__iter__(inst)))
            else:
                lost = back.__dict__.get(attr) is None
            ctx.violate("child_silently_skipped" if lost else "readback_differs", case,
                        f"{name}.{attr}: read-back model differs from the original", {"cls": name, "attr": attr})
    ctx.exhaustive.append("every concrete class x every declared child: the model's canonical description (Witness.mkWith) "
                          "through the real constructors, writer and reader")


def probe_clause(ctx, gen, cname, clause):
    """turn a failing static clause into the concrete failing input it stands for"""
    c = gen.by_name.get(cname)
    case = {"cls": cname, "clause": clause}
    if c is None:
        return
    if clause == "mutex":
        attrs = {a["name"]: a for a in c["spec"]}
        for g in c["opt_mutex"] + c["req_mutex"] + c["decl_opt_mutex"] + c["decl_req_mutex"]:
            bad = [m for m in g if m not in attrs or attrs[m]["required"] or attrs[m]["k"] in ("listagg", "listelem", "unsupported")]
            missing = (g in c["decl_opt_mutex"] and g not in c["opt_mutex"]) or (g in c["decl_req_mutex"] and g not in c["req_mutex"])
            if bad:
                pass        # reported above as mutex_names_bad_member
            elif missing:
                pass        # reported above as mutex_not_in_force
    elif clause == "listBlock":
        # a repeated member and a later non-repeated child: the writer emits the list first
        lists = [i for i, a in enumerate(c["spec"]) if a["k"] in ("listagg", "listelem")]
        inner = [a for i, a in enumerate(c["spec"]) if lists[0] < i < lists[-1] and a["k"] not in ("listagg", "listelem", "unsupported")]
        later = [a for i, a in enumerate(c["spec"]) if i > lists[0] and a["k"] in ("listagg", "listelem")]
        if inner and later:
            from ofxtools.models.base import Aggregate
            d, inst = gen.valid_instance(cname, tries=20, force=[inner[0]["name"], c["spec"][lists[-1]]["name"]])
            if d is not None:
                tree = inst.to_etree()
                r = quiet(Aggregate.from_etree, copy.deepcopy(tree))
                ctx.evaluations += 1
                if r[0] != "ok" or canon_inst(r[1]) != canon_inst(inst):
                    ctx.violate("list_block_interleaved", dict(case, child=inner[0]["name"], member=c["spec"][lists[-1]]["name"]),
                                f"{cname}: writing repeated member {c['spec'][lists[-1]]['name']} together with {inner[0]['name']} "
                                f"is not accepted by the library's own reader", {"cls": cname})
    else:
        ctx.violate("static_clause_" + clause, case, f"{cname}: static clause {clause} fails", {"cls": cname})


def replay(ctx, data):
    print(data.get("case") or data.get("first_disagreement"))
