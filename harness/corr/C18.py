"""
C18 correspondence + oracle: ofxget settings obey CLI > user file > FI db > OFX Home > defaults, and persist.

impl   = ofxtools.scripts.ofxget.{make_argparser, merge_config, write_config (mk_server_cfg, arg2config),
         read_config, UserConfig/LibraryConfig} run in-process on scratch files under .work/ofxget/,
         `ofxhome.lookup` replaced by a table, `OFXClient.uuid` fixed per run, USERCFG/LIBCFG re-created per run
model  = lean/OfxModel/Ofx/Ofxget.lean via the driver (`cfg.run`, `ofxget.*`)
oracle = (a) precedence: first of [cli, user section, FI-db section, DEFAULT section, OFX Home, DEFAULTS] that
         sets the option, computed here independently and cross-checked with the Lean spec (`spec.first`);
         (b) persistence: effective values of a second run without the command-line options equal the first
         run's, for every CONFIGURABLE option; (c) the written file never gains a `password` key, a dry run
         leaves the file untouched, the DEFAULT-section CLIENTUID never changes once created;
         (d) persistence as an IFF (`persist.ok`, lean/OfxModel/Spec/PersistOk.lean): per option, the model's
         `PersistOk` of the saving run == "the real next run kept the value".
"""
import argparse
import itertools
import os

from proto import line, Atom, dstr
from corr.ofxget_common import (Env, quiet, run_impl_all, pv, cv, dv, pmap, pfile, dfile, canon_file, poh, deff,
                                MISSING)

RULE = ("every CONFIGURABLE option x every subset of the places that can set it (command line, user section, FI-db "
        "section, DEFAULT section, OFX Home record) with distinct values per place (exhaustive); random namespaces / "
        "files / OFX Home tables incl. values with '%', '%%', '%(x)s', edge blanks, odd booleans and ints, lists of "
        "length 0-4 with members containing , ' \" [ ] \\ blanks; real argv through make_argparser; the real fi.cfg for "
        "sampled server nicknames; write/rerun sequences of length <= 4 on one file.  A case is non-trivial when "
        "merge_config returned a mapping; distinct by (namespace, files, table).  The INI text format: parser states "
        "built through the API (clean and odd section names / option names / values incl. multi-line values, blanks, "
        "comment-like lines, CR) -> write() text byte for byte, that text read back (read_string and through a real file); "
        "INI texts from the writer's range and hand-edited shapes (':' delimiter, comments, blank and continuation lines, "
        "duplicate sections/options, missing header, mixed-case keys, '%', ']' in headers, odd white space) -> sections / "
        "options / values or the error class, on a fresh parser and on one that already read another text; the witnesses "
        "of every clause of the proved round-trip guard replayed on the real parser.  Persistence as an IFF: on every "
        "write/rerun pair, for every CONFIGURABLE option, the model's PersistOk (proved equivalent to 'same value in effect "
        "at the next run') against what the real second run kept; the loss class against the five known findings.")

OH_KEYS = ("url", "org", "fid", "brokerid")
LIST_BAD = set(",'\\")


def distinct_values(ty, k, n, rng):
    if ty == "str":
        if k == "url":
            return [f"https://h{i}.example/ofx" for i in range(n)]
        return [f"{k[:3]}{i}v" for i in range(n)]
    if ty == "int":
        pool = [102, 103, 151, 160, 200, 201, 202, 210, 211, 220]
        rng.shuffle(pool)
        return pool[:n]
    if ty == "bool":
        return [bool((i + 1) % 2) for i in range(n)]
    if ty == "list":
        return [[f"{i}{j}" for j in range(1 + i % 3)] for i in range(n)]
    raise ValueError(ty)


def raw_of(ty, v, rng=None):
    """a file spelling of a typed value"""
    if ty == "str":
        return v
    if ty == "int":
        return str(v)
    if ty == "bool":
        if rng is None:
            return "true" if v else "false"
        return rng.choice(["true", "yes", "on", "1", "True", "YES"] if v else ["false", "no", "off", "0", "False", "Off"])
    return ", ".join(v)


BOOLS = {"1": True, "yes": True, "true": True, "on": True, "0": False, "no": False, "false": False, "off": False}


def ref_typed(ty, raw):
    """independent reading of a raw file value (no '%' in raw) -> ('ok', value) | ('err',)"""
    raw = raw.strip()
    if ty == "str":
        return ("ok", raw)
    if ty == "int":
        try:
            return ("ok", int(raw))
        except ValueError:
            return ("err",)
    if ty == "bool":
        return ("ok", BOOLS[raw.lower()]) if raw.lower() in BOOLS else ("err",)
    return ("ok", [x.strip() for x in raw.split(",")])


def sect_of(filec, name):
    """last-wins dict of a section of a file as written by the generator (keys lower-cased)"""
    out = {}
    for s, items in filec or []:
        if s == name:
            for k, v in items:
                out[k.lower()] = v
    return out


class Case:
    __slots__ = ("ns", "fidb", "user", "oh", "uuid", "real", "label")

    def __init__(self, ns, fidb, user, oh, uuid="UUID-A", real=None, label=""):
        self.ns, self.fidb, self.user, self.oh, self.uuid, self.real, self.label = ns, fidb, user, oh, uuid, real, label

    def json(self):
        return {"ns": {k: cv(v) for k, v in self.ns.items()}, "fidb": self.fidb, "user": self.user,
                "oh": {k: v for k, v in self.oh.items()}, "uuid": self.uuid, "real_fidb_server": self.real,
                "label": self.label}

    def model_line(self):
        return line("cfg.run", pmap(self.ns), pfile(self.fidb), pfile(self.user), poh(self.oh), self.uuid)


class Runner:
    def __init__(self, ctx):
        self.ctx = ctx
        self.env = Env("c18")
        self.T = self.env.tables
        self.DEFAULTS = self.T["defaults"]
        self.CONF = dict(self.T["configurable"])
        self.pending = []   # (case, impl result) waiting for the model's answer

    # ---- one process ------------------------------------------------------------------
    def run(self, case):
        """-> dict(eff=…, written=…, after=file content after the run)"""
        env, og = self.env, self.env.ofxget
        env.oh_table = case.oh
        if case.real:
            env.fresh_process(None, case.user, case.uuid, real_fidb=True)
        else:
            env.fresh_process(case.fidb, case.user, case.uuid)
        before = open(env.user_path, "rb").read() if os.path.exists(env.user_path) else None
        keys = list(self.DEFAULTS.keys()) + [k for k in case.ns if k not in self.DEFAULTS]
        with quiet():
            r = run_impl_all(og.merge_config, argparse.Namespace(**case.ns), og.USERCFG)
        res = {"eff": None, "written": None, "after": env.read_ini(env.user_path), "merged": None}
        if r[0] == "err":
            res["eff"] = ["err", r[1]]
            return res
        merged = r[1]
        res["merged"] = merged
        res["eff"] = ["ok", {k: (cv(merged[k]) if k in merged else MISSING) for k in keys}]
        if merged["write"]:
            with quiet():
                w = run_impl_all(og.write_config, merged)
            after_bytes = open(env.user_path, "rb").read() if os.path.exists(env.user_path) else None
            res["after"] = env.read_ini(env.user_path)
            if w[0] == "err":
                res["written"] = ["err", w[1]]
                if after_bytes != before:
                    self.ctx.violate("failed_write_changed_file", case.json(), "write_config raised but the file changed")
            elif merged["dryrun"]:
                res["written"] = None
                if after_bytes != before:
                    self.ctx.violate("dryrun_wrote_file", case.json(),
                                     "write_config with dryrun changed ofxget.cfg", {"dryrun": cv(merged["dryrun"])})
            else:
                res["written"] = ["ok", canon_file(res["after"])]
        return res

    def submit(self, case, res):
        self.pending.append((case, res))

    def flush(self):
        ctx = self.ctx
        if not self.pending:
            return
        replies = ctx.model.ask([c.model_line() for c, _ in self.pending])
        for (case, res), rep in zip(self.pending, replies):
            impl = {"eff": res["eff"], "written": res["written"]}
            if rep.kind == "ok":
                w = rep.vals[1]
                if w == "none":
                    mw = None
                elif w[0] == "err":
                    mw = ["err", w[1]]
                else:
                    mw = ["ok", canon_file([(s, kv) for s, kv in dfile(w[1])])]
                model = {"eff": ["ok", deff(rep.vals[0])], "written": mw}
            elif rep.kind == "err":
                model = {"eff": ["err", rep.err], "written": None}
            else:
                model = {"eff": ["bad", rep.raw], "written": None}
            if case.real:
                # the model saw only the server's section of the real fi.cfg
                pass
            ctx.stat("merge:" + impl["eff"][0] + (":" + impl["eff"][1] if impl["eff"][0] == "err" else ""))
            if impl["written"] is not None:
                ctx.stat("write:" + impl["written"][0] + (":" + impl["written"][1] if impl["written"][0] == "err" else ""))
            ctx.compare("cfg.run", case.json(), impl, model, nontrivial=(impl["eff"][0] == "ok"))
            ctx.sample({"case": case.json(), "impl": impl}, limit=6)
        self.pending = []

    # ---- oracles ----------------------------------------------------------------------
    def expected_effective(self, case):
        """precedence spec, independently: -> (dict key -> canonical value, ranked typed sources) | None when
        a raw value cannot be read (no effective value is defined then)"""
        ns = {k: v for k, v in case.ns.items() if v is not None}
        server = ns.get("server")
        fidb = case.fidb
        if case.real:
            sec = self.env.real_fidb_section(case.real)
            fidb = [[case.real, sec]] if sec is not None else []
        layers = []
        if isinstance(server, str):
            if server == "DEFAULT":
                raws = [{}, {}]
            else:
                raws = [sect_of(case.user, server), sect_of(fidb, server)]
            dsec = dict(sect_of(fidb, "DEFAULT"))
            dsec.update(sect_of(case.user, "DEFAULT"))
            known = server == "DEFAULT" or any(s == server for s, _ in (case.user or [])) or \
                any(s == server for s, _ in (fidb or []))
            for raw in (raws + [dsec]) if known else [{}, {}, {}]:
                typed = {}
                for k, v in raw.items():
                    if k in self.CONF:
                        if "%" in v:
                            return None
                        t = ref_typed(self.CONF[k], v)
                        if t[0] == "err":
                            return None
                        typed[k] = t[1]
                layers.append(typed)
        else:
            layers = [{}, {}, {}]
        ranked = [ns] + layers
        # OFX Home: looked up with the id in effect so far
        oid = None
        for m in ranked + [self.DEFAULTS]:
            if "ofxhome" in m:
                oid = m["ofxhome"]
                break
        oh = {}
        if oid and isinstance(oid, str) and case.oh.get(oid) is not None:
            oh = dict(zip(OH_KEYS, case.oh[oid]))
        ranked = ranked + [oh, self.DEFAULTS]
        exp = {}
        for k in list(self.DEFAULTS.keys()) + [k for k in ns if k not in self.DEFAULTS]:
            for m in ranked:
                if k in m:
                    exp[k] = cv(m[k])
                    break
            else:
                exp[k] = MISSING
        return exp, ranked

    def check_precedence(self, case, res, spec_queue):
        if res["eff"][0] != "ok":
            return
        e = self.expected_effective(case)
        if e is None:
            return
        exp, ranked = e
        eff = dict(res["eff"][1])
        # "sloppy" CLI: a URL passed as the server positional becomes the url (documented behaviour)
        ns = case.ns
        if not exp.get("url") or exp.get("url") in (["s", ""], None):
            srv = ns.get("server")
            if isinstance(srv, str) and eff.get("url") == ["s", srv] and eff.get("server") is None:
                exp["url"], exp["server"] = ["s", srv], None
        for k, want in exp.items():
            got = eff.get(k, MISSING)
            if got != want:
                self.ctx.violate("precedence_wrong", case.json(),
                                 f"option {k!r}: in effect {got}, the first place that sets it says {want}",
                                 {"option": k})
                break
        for k in rng_sample(self.ctx.rng, [k for k in exp if k not in ("url", "server")], 3):
            spec_queue.append((line("spec.first", [pmap(m) for m in ranked], k), exp[k], case, k))


def rng_sample(rng, xs, n):
    return rng.sample(xs, min(n, len(xs)))


def classify_persist(k, ty, v1, cli_val, cli_set, stored_before, lib_default, default_uid):
    """tag for a persistence failure of option k (v1 = value in effect at the writing run, Python value)"""
    if ty == "list" and isinstance(v1, list) and any((set(m) & LIST_BAD) or m != m.strip() or
                                                      any(ord(c) < 32 or ord(c) == 127 for c in m) for m in v1):
        return "persist_list_member_chars"
    if isinstance(v1, str) and "%" in v1:
        return "persist_percent_in_value"
    if isinstance(v1, list) and any("%" in m for m in v1):
        return "persist_percent_in_value"
    if ty == "str" and isinstance(v1, str) and v1 != v1.strip():
        return "persist_str_edge_blank"
    if cli_set:
        if cli_val in (None, "", []):
            return "persist_cli_null_over_stored"
        if k == "clientuid" and cli_val == default_uid:
            return "persist_clientuid_equals_global"
        if cli_val == lib_default:
            return "persist_cli_equals_default"
    return "persist_other"


def run(ctx):
    R = Runner(ctx)
    for pr in R.T.get("problems", []):
        ctx.disagree("translator", {"problem": pr}, "the tables the model was written for", pr)
    rng = ctx.rng
    CONF, DEFAULTS = R.CONF, R.DEFAULTS
    spec_queue = []

    def go(case):
        res = R.run(case)
        R.submit(case, res)
        R.check_precedence(case, res, spec_queue)
        return res

    # ------------------------------------------------------------------ A. exhaustive precedence
    n_exh = 0
    for k, ty in CONF.items():
        bits = 5 if k in OH_KEYS else 4
        for subset in itertools.product((0, 1), repeat=bits):
            for variant in range(2 if ctx.thorough else 1):
                vals = distinct_values(ty, k, 6, rng)
                b_cli, b_user, b_fidb, b_dsec = subset[:4]
                b_oh = subset[4] if bits == 5 else 0
                ns = {"request": "stmt", "verbose": 0, "server": "srv1", "dryrun": True}
                user, fidb, oh = [], [], {}
                usec, fsec, dsec = [], [], []
                if b_cli:
                    ns[k] = vals[0]
                if b_user:
                    usec.append([k if variant == 0 else k.upper(), raw_of(ty, vals[1], rng)])
                if b_fidb:
                    fsec.append([k, raw_of(ty, vals[2], rng)])
                if b_dsec:
                    dsec.append([k, raw_of(ty, vals[3], rng)])
                if b_oh:
                    rec = [None, None, None, None]
                    rec[OH_KEYS.index(k)] = vals[4]
                    if variant:
                        rec = [x if x is not None else f"oh-{i}" for i, x in enumerate(rec)]
                    oh["id1"] = rec
                    where = rng.choice(("cli", "user", "fidb"))
                    if where == "cli":
                        ns["ofxhome"] = "id1"
                    elif where == "user":
                        usec.append(["ofxhome", "id1"])
                    else:
                        fsec.append(["ofxhome", "id1"])
                # always have the sections exist so that DEFAULT shows through
                user = ([["DEFAULT", dsec]] if dsec else []) + [["srv1", usec]] + [["other", [[k, raw_of(ty, vals[5])]]]]
                fidb = [["srv1", fsec]] if (fsec or variant == 0) else []
                go(Case(ns, fidb, user, oh, label=f"exh {k} {subset}"))
                n_exh += 1
        R.flush()
    ctx.exhaustive.append(f"precedence: every CONFIGURABLE option ({len(CONF)}) x every subset of the places that can set it "
                          f"({n_exh} cases)")

    # ------------------------------------------------------------------ B. random merges
    STR_SPECIAL = ["", " ", "a b", " lead", "trail ", "100%", "a%%b", "%(url)s", "%(nosuch)s", "%(", "x%20y",
                   "https://h/ofx?a=%41", "é", "DEFAULT", "a=b", "a:b", "#x", ";x", "[x]"]
    LIST_POOL = [[], ["1"], ["1", "2"], ["1", "2", "3", "4"], ["a,b"], ["it's"], ['q"q'], ["[a"], ["a]"], [" a"],
                 ["a "], ["a\\b"], [""], ["", ""], ["1", ""], ["50%"], ["é"], ["x y"]]

    def rand_value(k, ty, special=0.3):
        if ty == "str":
            if rng.random() < special:
                return rng.choice(STR_SPECIAL)
            return distinct_values("str", k, 6, rng)[rng.randrange(6)]
        if ty == "int":
            return rng.choice([0, 1, -1, 102, 103, 160, 200, 203, 220, 10 ** 12])
        if ty == "bool":
            return rng.random() < 0.5
        return [list(x) for x in [rng.choice(LIST_POOL)]][0] if rng.random() < 0.6 else \
            [str(rng.randrange(10 ** rng.randrange(1, 10))) for _ in range(rng.randrange(0, 5))]

    def rand_raw(k, ty, valid=False):
        r = rng.random()
        if valid:
            v = rand_value(k, ty, special=0.0)
            return raw_of(ty, v, rng).replace("%", "")
        if r < 0.12:
            return rng.choice(["", "maybe", "1_0", " 7 ", "+3", "2.0", "0x10", "%(version)s", "100%", "a%%b", "TRUE", "On"])
        v = rand_value(k, ty, special=0.25)
        try:
            raw = raw_of(ty, v, rng)
        except Exception:
            raw = str(v)
        return raw.replace("\n", " ")

    servers = ["srv1", "srv2", "My Bank", "DEFAULT", "https://bank.example/ofx", "ftp:x", "nick%1", "x.y-z"]
    cmds = R.T["commands"]
    NONCONF = [k for k in DEFAULTS if k not in CONF]

    def rand_ns(write=None):
        ns = {"request": rng.choice(cmds) if rng.random() < 0.3 else "stmt", "verbose": 0}
        r = rng.random()
        if r < 0.8:
            ns["server"] = rng.choice(servers[:3]) if rng.random() < 0.8 else rng.choice(servers)
        elif r < 0.9:
            ns["server"] = None
        for k in rng.sample(list(CONF), rng.randrange(0, 6)):
            ns[k] = rand_value(k, CONF[k]) if rng.random() < 0.9 else None
        for k in rng.sample(NONCONF, rng.randrange(0, 4)):
            if k in ("verbose", "server", "years"):
                continue
            ns[k] = rand_value(k, {str: "str", int: "int", bool: "bool", list: "list"}[type(DEFAULTS[k])])
        if rng.random() < 0.6:
            ns["dryrun"] = True
        if write is not None:
            ns["write"] = write
        elif rng.random() < 0.4:
            ns["write"] = True
        if rng.random() < 0.1:
            ns.pop("request", None)
        return ns

    def rand_file(extra_default=True, valid=False):
        secs = []
        if extra_default and rng.random() < 0.4:
            items = [["clientuid", "UID-STORED"]] if rng.random() < 0.7 else []
            for k in rng.sample(list(CONF), rng.randrange(0, 3)):
                if k != "clientuid":
                    items.append([k, rand_raw(k, CONF[k], valid)])
            secs.append(["DEFAULT", items])
        for s in rng.sample(servers[:4] if rng.random() < 0.9 else servers[:3], rng.randrange(0, 4)):
            if s == "DEFAULT":
                continue
            items, seen = [], set()
            for k in rng.sample(list(CONF) + ["password", "unknownkey"], rng.randrange(0, 7)):
                kk = k.upper() if rng.random() < 0.1 else k
                if k in seen:
                    continue
                seen.add(k)
                items.append([kk, rand_raw(k, CONF.get(k, "str"), valid)])
            secs.append([s, items])
        return secs

    def rand_oh():
        t = {}
        for i in ("id1", "424", "x"):
            if rng.random() < 0.5:
                t[i] = [rng.choice([None, f"https://oh-{i}.example/", "u%25"]), rng.choice([None, f"ORG{i}"]),
                        rng.choice([None, f"F{i}", ""]), rng.choice([None, f"B{i}"])] if rng.random() < 0.85 else None
        return t

    def with_ohid(ns, user, fidb):
        if rng.random() < 0.35:
            ns["ofxhome"] = rng.choice(["id1", "424", "x", "nope", ""])

    for i in range(ctx.budget(2500)):
        ns = rand_ns()
        user, fidb, oh = rand_file(), rand_file(extra_default=rng.random() < 0.15), rand_oh()
        with_ohid(ns, user, fidb)
        go(Case(ns, fidb, user, oh, uuid=f"UUID-{i % 7}", label="rand"))
        if i % 500 == 499:
            R.flush()
    R.flush()

    # real fi.cfg, sampled nicknames
    real = R.env.real_fidb_servers()
    for s in rng.sample(real, min(len(real), ctx.budget(60, 600))):
        ns = rand_ns()
        ns["server"] = s
        go(Case(ns, [[s, R.env.real_fidb_section(s)]], rand_file(), rand_oh(), real=s, label="real-fidb"))
    R.flush()

    # ------------------------------------------------------------------ C. real argv through make_argparser
    og = R.env.ofxget
    acts = R.T["arg_actions"]
    for i in range(ctx.budget(300)):
        cmd = rng.choice([c for c in cmds if c != "list"])
        argv, typed = [cmd], {}
        if rng.random() < 0.85:
            argv.append("srv1")
            typed["server"] = "srv1"
        for dest, a in rng.sample(list(acts[cmd].items()), min(rng.randrange(0, 6), len(acts[cmd]))):
            if not a["options"] or dest in ("help", "verbose", "years", "clientuid"):
                continue
            o = rng.choice(a["options"])
            if a["action"] in ("_StoreTrueAction", "_StoreFalseAction"):
                argv.append(o)
                typed[dest] = a["action"] == "_StoreTrueAction"
            elif a["action"] == "_AppendAction":
                vs = [str(rng.randrange(1000)) for _ in range(rng.randrange(1, 4))]
                for v in vs:
                    argv += [o, v]
                typed[dest] = vs
            elif a["type"] == "int":
                v = rng.choice([102, 103, 160, 203, 220])
                argv += [o, str(v)]
                typed[dest] = v
            else:
                v = rng.choice(["cliv", "https://cli.example/ofx", "x%41", ""])
                argv += [o, v]
                typed[dest] = v
        if "dryrun" not in typed and "dryrun" in acts[cmd]:
            argv.append("-n")
            typed["dryrun"] = True
        with quiet():
            r = run_impl_all(og.make_argparser().parse_args, argv)
        ctx.evaluations += 1
        if r[0] != "ok":
            ctx.disagree("argparse", {"argv": argv}, r, "parse ok")
            continue
        ns = dict(vars(r[1]))
        want = dict(typed, request=cmd, verbose=0)
        for d, v in ns.items():
            w = want.get(d)
            if v != w or type(v) != type(w):
                ctx.violate("argparse_sets_untyped_option", {"argv": argv},
                            f"namespace has {d}={v!r} though the command line says {w!r} (an untyped option must be None "
                            f"so that lower-ranking places can set it)", {"option": d})
                break
        # every option in the file: the file must win wherever the command line is silent
        # booleans are stored as true: an untyped store_true flag that parsed as False would shadow them
        usec = [[k, ("true" if ty == "bool" else raw_of(ty, distinct_values(ty, k, 2, rng)[1]))]
                for k, ty in CONF.items() if rng.random() < 0.7]
        case = Case(ns, [], [["srv1", usec]], {}, label="argv " + " ".join(argv))
        res = R.run(case)
        R.submit(case, res)
        # oracle with what was *typed* as the command-line source (not what argparse produced)
        tcase = Case(want, [], [["srv1", usec]], {}, label=case.label)
        R.check_precedence_typed = None
        if res["eff"][0] == "ok":
            e = R.expected_effective(tcase)
            if e is not None:
                for k, w in e[0].items():
                    if res["eff"][1].get(k, MISSING) != w:
                        ctx.violate("precedence_wrong", case.json(),
                                    f"argv {argv}: option {k!r} in effect {res['eff'][1].get(k)}, expected {w}", {"option": k})
                        break
    R.flush()

    # ------------------------------------------------------------------ D. write / rerun sequences
    # persistence as an IFF (EXT-C18b): on every write/rerun pair the model's `PersistOk` (Spec/PersistOk.lean, proved
    # equivalent to "same value in effect at the next run" by C18_persist_iff) is compared, option by option, with what
    # the real second run kept
    persist_queue = []
    LOSS_OF_TAG = {"persist_cli_null_over_stored": "cliNull", "default_section_ignored_for_new_server": "defaultSectionIgnored",
                   "persist_clientuid_equals_global": "uidEqualsGlobal", "persist_str_edge_blank": "strEdgeBlank",
                   "persist_list_member_chars": "listMember"}

    def flush_persist():
        if not persist_queue:
            return
        replies = ctx.model.ask([line("persist.ok", pmap(c.ns), pfile(c.fidb), pfile(c.user), poh(c.oh), c.uuid)
                                 for c, _, _, _ in persist_queue])
        if all(rep.kind == "bad" and rep.raw.strip() == "(bad-op)" for rep in replies):
            # a driver built before Drv/OfxgetPersist.lean was registered in Drv/All.lean: nothing to compare with
            ctx.stat("persist:driver-op-missing", len(replies))
            persist_queue.clear()
            return
        for (case, pcase, kept, tags), rep in zip(persist_queue, replies):
            cj = {"write": case.json(), "rerun": pcase.json()}
            if rep.kind != "ok" or rep.vals[0] == "none":
                ctx.disagree("persist.ok", cj, {"kept": kept}, rep.raw)
                continue
            rows = {dstr(r[0]): r[1:] for r in rep.vals[0]}
            model = {k: (rows[k][0] == "T") if k in rows else None for k in kept}
            ctx.compare("persist.ok", cj, kept, model)
            for k, r in rows.items():
                ctx.stat("persist:" + r[1] + ":" + ("kept" if r[0] == "T" else r[2]))
                if (r[0] == "T") != (r[3] == "T"):
                    # an instance of C18_persist_iff evaluated on the model itself
                    ctx.disagree("persist.iff-instance", dict(cj, option=k), "PersistOk = " + r[0], "model rerun kept = " + r[3])
                if r[2] == "unexpected":
                    ctx.disagree("persist.loss-unexpected", dict(cj, option=k), "a setting lost in none of the named ways", r)
                want = LOSS_OF_TAG.get(tags.get(k))
                if want is not None and r[0] == "F" and r[2] != want and k not in OH_KEYS:
                    ctx.stat("persist-class-differs:" + want + "/" + r[2])
        persist_queue.clear()

    def probe_ns(server):
        return {"request": "stmt", "verbose": 0, "server": server, "dryrun": True}

    def sequence(steps, fidb, user0, oh, label, real=None):
        """steps: list of ns (each with write=True); after each, a probe run without the options"""
        user = user0
        uid_seen = None
        for si, ns in enumerate(steps):
            case = Case(ns, fidb, user, oh, uuid=f"GEN-{si}", real=real, label=f"{label} step{si}")
            res = go(case)
            before_user = user
            user = res["after"]
            had_pw = any(k.lower() == "password" for s, items in (before_user or []) for k, _ in items)
            if not had_pw and any(k == "password" for s, items in user for k, _ in items):
                ctx.violate("password_stored", case.json(), "ofxget.cfg gained a password option")
            pw = ns.get("password")
            old_vals = {(s_, k_.lower(), v_.strip()) for s_, items in (before_user or []) for k_, v_ in items}
            # (a password the generator happened to make equal to another option's value of the same step — e.g. the
            # user id — proves nothing: that value is stored on purpose)
            shared = pw and any((isinstance(v_, str) and pw in v_) or
                                (isinstance(v_, (list, tuple)) and any(isinstance(m_, str) and pw in m_ for m_ in v_))
                                for k_, v_ in ns.items() if k_ != "password")
            if pw and len(pw) > 3 and not shared and any(pw in v for s_, items in user for k, v in items if (s_, k, v) not in old_vals):
                ctx.violate("password_stored", case.json(), "the password text appears in ofxget.cfg")
            # DEFAULT clientuid stability
            duid = dict(sect_of(user, "DEFAULT")).get("clientuid")
            if uid_seen is not None and duid != uid_seen and ns.get("server") != "DEFAULT":
                ctx.violate("default_clientuid_changed", case.json(),
                            f"DEFAULT-section CLIENTUID was {uid_seen!r}, now {duid!r}")
            if duid is not None:
                uid_seen = duid
            if res["eff"][0] != "ok" or res["written"] is None:
                continue
            server = ns.get("server")
            if server == "DEFAULT":
                continue    # configparser's reserved section name is not a nickname; model agreement is still checked
            eff1 = res["eff"][1]
            merged = res["merged"]
            if res["written"][0] == "err":
                # a refused save: tell apart the designed refusal (no nickname) from the '%' defect
                vals = [merged[k] for k in CONF if k in merged]
                pct = any(("%" in v) if isinstance(v, str) else any("%" in m for m in v) if isinstance(v, list) else False
                          for v in vals)
                nick_ok = bool(merged.get("server")) and merged.get("server") != merged["url"]
                if res["written"][1] == "value" and nick_ok and pct:
                    ctx.violate("persist_percent_in_value", case.json(),
                                "--write raises ValueError (configparser interpolation syntax) because a value contains '%'",
                                {"phase": "write"})
                elif nick_ok:
                    ctx.violate("write_raises", case.json(), f"--write raised {res['written'][1]}", {"kind": res["written"][1]})
                continue
            if not isinstance(server, str):
                continue
            pcase = Case(probe_ns(server), fidb, user, oh, uuid=f"GEN-{si}p", real=real, label=f"{label} probe{si}")
            pres = go(pcase)
            if pres["eff"][0] != "ok":
                vals = [merged[k] for k in CONF if k in merged]
                if any(("%" in v) if isinstance(v, str) else any("%" in m for m in v) if isinstance(v, list) else False
                       for v in vals):
                    ctx.violate("persist_percent_in_value", {"write": case.json(), "rerun": pcase.json()},
                                f"a saved value containing '%' makes the next run fail with {pres['eff'][1]}",
                                {"phase": "rerun"})
                    continue
                ctx.violate("rerun_fails", {"write": case.json(), "rerun": pcase.json()},
                            f"the run after --write fails with {pres['eff'][1]}", {"kind": pres["eff"][1]})
                continue
            eff2 = pres["eff"][1]
            lib = {}
            fsec = sect_of(fidb, server)
            for k in CONF:
                if k in fsec and "%" not in fsec[k]:
                    t = ref_typed(CONF[k], fsec[k])
                    if t[0] == "ok":
                        lib[k] = t[1]
            failing = [k for k in CONF if eff1.get(k, MISSING) != eff2.get(k, MISSING)]
            tags = {}
            for k in failing:
                if k == "clientuid" and eff2.get(k) == ["s", duid] and not merged["clientuid"]:
                    continue        # by design: the generated global CLIENTUID comes into effect after the first save
                if (ns.get(k) is None and k in sect_of(before_user, server) and k in sect_of(user, "DEFAULT")
                        and k not in sect_of(user, server)):
                    # the section's own entry (equal to the library default) was removed by --write
                    tags[k] = "persist_section_default_value_dropped"
                    continue
                known_before = any(s_ == server for s_, _ in (before_user or [])) or any(s_ == server for s_, _ in (fidb or []))
                if not known_before and ns.get(k) is None and k in sect_of(user, "DEFAULT") and k != "clientuid":
                    tags[k] = "default_section_ignored_for_new_server"
                    continue
                tags[k] = classify_persist(k, CONF[k], merged[k], ns.get(k), ns.get(k) is not None,
                                           sect_of(before_user, server).get(k), lib.get(k, DEFAULTS[k]),
                                           dict(sect_of(user, "DEFAULT")).get("clientuid"))
            for k, tag in list(tags.items()):
                if tag == "persist_cli_equals_default" and k in sect_of(user, "DEFAULT") and k not in sect_of(user, server):
                    tags[k] = tag = "persist_cli_default_vs_default_section"
            for k, tag in tags.items():
                if k in OH_KEYS and "ofxhome" in tags and ns.get(k) is None:
                    tag = tags["ofxhome"]     # a consequence of the OFX Home id not persisting
                ctx.violate(tag, {"write": case.json(), "rerun": pcase.json()},
                            f"option {k!r}: in effect {eff1.get(k)} when saved, {eff2.get(k)} on the next run without the option",
                            {"option_type": CONF[k]})
            if not merged["dryrun"]:
                persist_queue.append((case, pcase, {k: eff1.get(k, MISSING) == eff2.get(k, MISSING) for k in CONF}, dict(tags)))
        return user

    def write_ns(server="srv1", **kw):
        ns = {"request": "stmt", "verbose": 0, "server": server, "write": True, "url": "https://w.example/ofx"}
        ns.update(kw)
        return ns

    # D1: every option x value pool x (nothing stored | different stored | fidb holds the value)
    pools = {"str": ["plain", "a b", " lead", "trail ", "100%", "a%%b", "%(url)s", "x%20y", "é"],
             "int": [0, 102, 203, 220, -5],
             "bool": [True, False],
             "list": LIST_POOL}
    n_d1 = 0
    for k, ty in CONF.items():
        pool = list(pools[ty])
        if not ctx.thorough:
            pool = rng.sample(pool, min(len(pool), 4))
        pool.append(DEFAULTS[k])
        for v in pool:
            for stored in ("none", "different", "fidb-same", "fidb-different"):
                other = raw_of(ty, distinct_values(ty, k, 3, rng)[2])
                user0 = [["srv1", [[k, other]]]] if stored == "different" else []
                fidb = [["srv1", [[k, raw_of(ty, v)]]]] if stored == "fidb-same" and "%" not in str(v) and v not in ("", []) else []
                if stored == "fidb-different":
                    # the FI database overrides the built-in default for this server; the value given (possibly the
                    # built-in default itself) differs from it and must be saved
                    fidb = [["srv1", [[k, other]]]]
                kw = {k: v}
                if k == "url":
                    kw["url"] = v
                ns = write_ns(**kw)
                if k == "ofxhome":
                    pass
                sequence([ns], fidb, user0, {"id1": ["https://oh.example/", "O", "F", None]}, f"d1 {k}")
                n_d1 += 1
        R.flush()
    flush_persist()
    ctx.exhaustive.append(f"persistence: every CONFIGURABLE option x value pool x stored-state ({n_d1} write+rerun pairs)")

    # D1c: real fi.cfg: a command-line value equal to the BUILT-IN default where fi.cfg overrides the option
    def typed_or_none(ty, raw):
        t = ref_typed(ty, raw)
        return t[1] if t[0] == "ok" else None
    n_real = 0
    for srv in rng.sample(real, min(len(real), ctx.budget(25, 400))) + [x for x in ("amex", "chase", "fidelity") if x in real]:
        sec = dict(R.env.real_fidb_section(srv) or [])
        for k, ty in CONF.items():
            if k in sec and DEFAULTS[k] not in ("", [], None) and typed_or_none(ty, sec[k]) not in (None, DEFAULTS[k]):
                ns = write_ns(server=srv, **{k: DEFAULTS[k]})
                sequence([ns], [[srv, R.env.real_fidb_section(srv)]], [], {}, f"d1c real {srv} {k}", real=srv)
                n_real += 1
    ctx.stat("real-fidb-default-override-cases", n_real)
    R.flush()
    flush_persist()

    # D1b: --clientuid equal to the global (DEFAULT-section) CLIENTUID while the server section stores another one
    for stored in ("S-OTHER", None):
        user0 = [["DEFAULT", [["clientuid", "G-UID"]]], ["srv1", ([["clientuid", stored]] if stored else []) + [["user", "bob"]]]]
        sequence([write_ns(clientuid="G-UID")], [], user0, {}, "d1b clientuid-global")
        sequence([write_ns(clientuid="NEW-UID")], [], user0, {}, "d1b clientuid-new")
    R.flush()

    # D2: random sequences of length <= 4
    for i in range(ctx.budget(250)):
        server = rng.choice(servers[:3]) if rng.random() < 0.9 else rng.choice(servers)
        steps = []
        for _ in range(rng.randrange(1, 5)):
            ns = rand_ns(write=True)
            ns["server"] = server
            ns["request"] = "stmt"
            if rng.random() < 0.8:
                ns.pop("dryrun", None)
            if rng.random() < 0.7 and not ns.get("url"):
                ns["url"] = "https://seq.example/ofx"
            steps.append(ns)
        fidb = rand_file(extra_default=False, valid=True)
        oh = rand_oh()
        sequence(steps, fidb, rand_file(valid=True) if rng.random() < 0.5 else None, oh, f"seq{i}")
        if i % 50 == 49:
            R.flush()
            flush_persist()
    R.flush()
    flush_persist()

    # ------------------------------------------------------------------ E. leaf functions
    leaf = []
    for s in STR_SPECIAL + ["%%%", "%%(a)s", "%(a)s%(b)s", "%(a)", "%()s", "a%(b)sc%%d"]:
        leaf.append(("verbatim", s))
    for s in ["1", " 1 ", "+1", "-0", "1_0", "1__0", "_1", "1_", "", "007", "-", "+", "12a", "yes", "ON", "maybe", " true",
              "False", "0", "off", "nO"]:
        leaf.append(("conv-int", s))
        leaf.append(("conv-bool", s))
    for s in ["", "a", "a,b", " a , b ", ",", "a,,b", "a, b c ,d"]:
        leaf.append(("conv-list", s))
    for l in LIST_POOL + [["a", "it's"], ['it\'s "x"'], ["\t"], ["a\nb"], ["[", "]"], ["]x["]]:
        leaf.append(("ser-list", l))
    for _ in range(ctx.budget(300)):
        l = ["".join(rng.choice("ab1 ,'\"[]\\%") for _ in range(rng.randrange(0, 5))) for _ in range(rng.randrange(0, 4))]
        leaf.append(("ser-list", l))
        leaf.append(("verbatim", "".join(rng.choice("a%()s") for _ in range(rng.randrange(0, 9)))))
    for s in servers + ["a:b", ":x", "1a:b", "a+b.c-d:e", "a_b:c", "http//x", " http://x", "é:x", "", "x:"]:
        leaf.append(("scheme", s))
    SECT = {"a": "A", "b": "x%(a)sy", "c": "%(c)s", "d": "50%%", "e": "%(nosuch)s", "url": "U"}
    lines = []
    impls = []
    import urllib.parse
    import configparser as _cp

    def raw_parser(sect):
        """an interpolating UserConfig holding `sect` verbatim (no set-time validation, no file syntax)"""
        raw = _cp.RawConfigParser()
        raw["s"] = sect
        cpi = og.UserConfig()
        cpi._sections = raw._sections
        return cpi
    for op, x in leaf:
        if op == "verbatim":
            # interpolation=None: what is stored is what is read, for both parsers
            for cls in (og.UserConfig, og.LibraryConfig):
                cp = cls()
                cp["s"] = {}
                r = run_impl_all(lambda cp=cp, x=x: (cp["s"].__setitem__("k", x), cp["s"].get("k"))[1])
                ctx.evaluations += 1
                if r != ("ok", x):
                    ctx.violate("persist_percent_in_value", {"op": "set-get", "value": x, "parser": cls.__name__},
                                f"{cls.__name__}: cfg['s']['k'] = {x!r} then get -> {r} (values must be stored and read verbatim)",
                                {"phase": "leaf"})
            lines.append(line("ofxget.scheme", x))
            import urllib.parse as _up
            impls.append(["ok", bool(_up.urlparse(x).scheme)] if "[" not in x and "]" not in x else None)
        elif op.startswith("conv-"):
            ty = op[5:]
            lines.append(line("ofxget.conv", Atom(ty), x))
            cpi = raw_parser({"k": x})
            g = {"int": "getint", "bool": "getboolean", "list": "getlist"}[ty]
            r = run_impl_all(lambda cpi=cpi, g=g: getattr(cpi, g)("s", "k"))
            impls.append(["ok", cv(r[1])] if r[0] == "ok" else ["err", r[1]])
        elif op == "ser-list":
            lines.append(line("ofxget.ser", Atom("list"), pv(x)))
            r = run_impl_all(og.arg2config, "checking", list, x)
            impls.append(["ok", ["s", r[1]]] if r[0] == "ok" else ["err", r[1]])
        elif op == "scheme":
            lines.append(line("ofxget.scheme", x))
            impls.append(["ok", bool(urllib.parse.urlparse(x).scheme)])
    for (op, x), impl, rep in zip(leaf, impls, ctx.model.ask(lines)):
        if impl is None:
            continue
        if rep.kind == "ok":
            v = rep.vals[0]
            if op in ("verbatim", "scheme"):
                model = ["ok", v == "T"]
            elif op in ("ser-list",):
                model = ["ok", ["s", dstr(v)]]
            else:
                model = ["ok", dv(v)]
        else:
            model = ["err", rep.err]
        ctx.stat("leaf:" + op)
        ctx.compare("ofxget." + op, {"op": op, "arg": x}, impl, model)

    # ------------------------------------------------------------------ F. the INI text format (write / read)
    from corr import c18_initext
    c18_initext.run_ini(ctx, og, R.env.dir)

    # ------------------------------------------------------------------ spec twin vs the independent reference
    replies = ctx.model.ask([q[0] for q in spec_queue])
    for (ln, want, case, k), rep in zip(spec_queue, replies):
        ctx.evaluations += 1
        got = MISSING
        if rep.ok:
            got = MISSING if rep.vals[0] == "none" else dv(rep.vals[0][1])
        if got != want:
            ctx.disagree("spec.first-vs-reference", {"case": case.json(), "option": k}, want, got)


def replay(ctx, data):
    R = Runner(ctx)
    c = data.get("case") or data.get("first_disagreement", {}).get("case")
    if isinstance(c, dict) and ("text" in c or "sections" in c) and "ns" not in c:
        from corr import c18_initext
        print("replay (INI text) ->", c18_initext.replay_ini(ctx, R.env.ofxget, c))
        return
    for key in ("write", "rerun"):
        if isinstance(c, dict) and key in c:
            cc = c[key]
            print(key, "->", _replay_one(R, cc))
            return
    print("replay ->", _replay_one(R, c))


def _uncv(x):
    return None if x is None else x[1]


def _replay_one(R, c):
    case = Case({k: _uncv(v) for k, v in c["ns"].items()}, c["fidb"], c["user"], c["oh"], c.get("uuid", "U"),
                c.get("real_fidb_server"))
    res = R.run(case)
    return {"eff": res["eff"], "written": res["written"]}
