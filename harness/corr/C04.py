"""
C04 — every declared constraint is enforced on both construction routes.

impl   = Cls(*args, **kwargs)  and  Aggregate.from_etree(tree)
model  = Agg.construct / Agg.fromEtree over the generated schema (driver ops `construct`, `fromtree`)
oracle = (a) a description that violates a declared constraint must be rejected on both routes, a
         boundary one accepted; (b) every instance either route returns satisfies every declared
         constraint of its class (independent Python validity check `agg_common.py_valid`).
"""
import copy
import xml.etree.ElementTree as ET

import codec
from codec import canon_inst, canon_tree, text
from gen.instances import Gen, concrete_classes
from corr.agg_common import kw_line, fromtree_line, quiet, model_ok_err, py_valid

RULE = ("for every concrete class: a valid description from the type-directed generator, then one mutated "
        "description per declared constraint kind (omit required / two of an at-most-one group / none or two of an "
        "exactly-one group / foreign enumeration token / string at limit and limit+1 / integer 10^n-1, 10^n, -10^n / "
        "unknown kwarg / foreign list member / str list member / list attribute as kwarg / duplicated child / swapped "
        "children), each run through keyword construction and through from_etree; thorough: every constraint of every "
        "class; a case is non-trivial and distinct by (class, kind, attribute/group, route)")


def tree_from(gen, name, args, kwargs):
    """Build the element tree a document carrying exactly this description would parse to: children in
    spec order, list members at the first list attribute, texts written by the real converters' `unconvert`
    (raw str values are written verbatim). No validation happens here."""
    from ofxtools.models.base import Aggregate
    cls = getattr(gen.M, name)
    c = gen.by_name[name]
    root = ET.Element(name)
    done_list = False
    for a in c["spec"]:
        n, k = a["name"], a["k"]
        if k in ("listagg", "listelem"):
            if not done_list:
                done_list = True
                for m in args:
                    if isinstance(m, Aggregate):
                        root.append(m.to_etree())
                    elif isinstance(m, ET.Element):
                        root.append(m)
                    else:
                        lst = [x for x in c["spec"] if x["k"] == "listelem"]
                        tag = (lst[0]["name"] if lst else "X").upper()
                        ET.SubElement(root, tag).text = m if isinstance(m, str) else cls._superdict[lst[0]["name"]].unconvert(m)
            continue
        if n not in kwargs or kwargs[n] is None:
            continue
        v = kwargs[n]
        if isinstance(v, Aggregate):
            root.append(v.to_etree())
        elif isinstance(v, str) and k != "string":
            ET.SubElement(root, n.upper()).text = v
        elif isinstance(v, str):
            ET.SubElement(root, n.upper()).text = v      # raw text (escaping is the serializer's business)
        else:
            ET.SubElement(root, n.upper()).text = cls._superdict[n].unconvert(v)
    # unknown kwargs: append as extra children (tree route ignores them: not a C04 matter)
    try:
        root = cls.ungroom(root)
    except Exception:
        pass
    return root


import os as _os
REPO_PATH = _os.environ.get("OFX_REPO", "/repo")


def run(ctx):
    from ofxtools.models.base import Aggregate
    schema = ctx.schema
    gen = Gen(schema, ctx.rng, max_depth=2)
    classes = concrete_classes(schema)
    by_name = gen.by_name
    cidx = codec.class_index()
    rng = ctx.rng
    per_kind = None if ctx.thorough else 1
    if ctx.thorough:
        ctx.exhaustive.append("every declared constraint of every concrete class, both routes")

    # history: class-level introspection of every class, bases first (spec/elements/... are computed
    # properties; building must not depend on which of them were looked at before)
    import inspect as _inspect
    allcls = [c for n, c in vars(gen.M).items() if _inspect.isclass(c) and issubclass(c, Aggregate)]
    for kcls in sorted(allcls, key=lambda k: (len(k.__mro__), k.__name__)):
        for prop_name in ("spec", "spec_no_listaggregates", "elements", "subaggregates", "listaggregates",
                          "listelements", "unsupported"):
            getattr(kcls, prop_name)

    # ... and it must not: the same introspection done subclasses-first in a fresh interpreter has to describe every
    # class the same way (a class description that depends on which class was looked at first means some declared
    # constraint is not enforced in one of the two histories)
    import json as _json, subprocess as _sp, sys as _sys
    probe = ("import sys, json, inspect; sys.path.insert(0, %r); import ofxtools.models as M; "
             "from ofxtools.models.base import Aggregate; "
             "cl=[c for n,c in vars(M).items() if inspect.isclass(c) and issubclass(c, Aggregate)]; "
             "cl.sort(key=lambda k:(-len(k.__mro__), k.__name__)); "
             "print(json.dumps({k.__name__: [[n, type(v).__name__, bool(getattr(v,'required',False))] for n,v in k.spec.items()] for k in cl}))") % REPO_PATH
    try:
        out = _sp.run([_sys.executable, "-c", probe], capture_output=True, text=True, timeout=300).stdout
        other = _json.loads(out.strip().splitlines()[-1])
    except Exception:   # noqa
        other = {}
        ctx.notes.append("order-independence probe of the class descriptions could not run")
    for kcls in allcls:
        mine = [[n, type(v).__name__, bool(getattr(v, "required", False))] for n, v in kcls.spec.items()]
        theirs = other.get(kcls.__name__)
        ctx.evaluations += 1
        if theirs is not None and theirs != mine:
            lost = [x for x in theirs if x not in mine]
            ctx.violate("class_description_depends_on_history",
                        {"cls": kcls.__name__, "bases_first": mine[:40], "subclasses_first": theirs[:40]},
                        f"{kcls.__name__}: the children/constraints the class declares differ between two orders of first "
                        f"use (bases first: {len(mine)} children, subclasses first: {len(theirs)}; e.g. {lost[:2]}) — in one "
                        f"of the two histories the class does not enforce what it declares", {"cls": kcls.__name__})

    cases = []   # (clsname, kind, what, args, kwargs, expect)  expect in {"ok","err"}

    def pick(lst):
        lst = list(lst)
        if per_kind is None or len(lst) <= per_kind:
            return lst
        return rng.sample(lst, per_kind)

    def val_for(a, depth=1):
        if a["k"] == "sub":
            d, inst = gen.valid_instance(a["clsname"])
            return inst
        return gen.value(a)

    for c in classes:
        name = c["name"]
        d, inst = gen.valid_instance(name)
        if d is None:
            ctx.stat("gen_failed")
            continue
        _, args0, kwargs0 = d
        args = [gen.build(x) if isinstance(x, tuple) else x for x in args0]
        kwargs = {n: (gen.build(v) if isinstance(v, tuple) else v) for n, v in kwargs0.items()}
        cases.append((name, "valid", "", args, kwargs, "ok"))
        attrs = {a["name"]: a for a in c["spec"]}
        nonlist = [a for a in c["spec"] if a["k"] not in ("listagg", "listelem", "unsupported")]
        # omit required (keep other rules intact: only attrs not in any exactly-one group)
        for a in pick([a for a in nonlist if a["required"]]):
            k2 = dict(kwargs); k2.pop(a["name"], None)
            cases.append((name, "omit_required", a["name"], args, k2, "err"))
        # at-most-one groups (effective and declared anywhere in the MRO)
        groups = c["opt_mutex"] + [g for g in c["decl_opt_mutex"] if g not in c["opt_mutex"]]
        for g in pick([g for g in groups if sum(1 for m in g if m in attrs and attrs[m]["k"] not in ("listagg", "listelem", "unsupported")) >= 2]):
            ms = [m for m in g if m in attrs and attrs[m]["k"] not in ("listagg", "listelem", "unsupported")][:2]
            k2 = dict(kwargs)
            for m in ms:
                if k2.get(m) is None:
                    k2[m] = val_for(attrs[m])
            if all(k2.get(m) is not None for m in ms):
                cases.append((name, "mutex_two", ",".join(ms), args, k2, "err"))
        rgroups = c["req_mutex"] + [g for g in c["decl_req_mutex"] if g not in c["req_mutex"]]
        for g in pick(rgroups):
            ms = [m for m in g if m in attrs]
            k2 = dict(kwargs)
            for m in ms:
                k2.pop(m, None)
            cases.append((name, "reqmutex_none", ",".join(g), args, k2, "err"))
            # ... nor does an empty text count as a member given: the converters turn "" into None, so accepting it
            # leaves an instance holding none of the group (keyword route only: a tree never carries an empty text)
            for m in ms:
                if attrs[m]["k"] in ("string", "nagstring", "oneof", "integer", "decimal", "bool", "datetime", "time"):
                    k4 = dict(k2); k4[m] = ""
                    cases.append((name, "reqmutex_empty_string", m, args, k4, "err"))
                    break
            if len(ms) >= 2:
                k3 = dict(kwargs)
                for m in ms[:2]:
                    if k3.get(m) is None:
                        k3[m] = val_for(attrs[m])
                if all(k3.get(m) is not None for m in ms[:2]):
                    cases.append((name, "reqmutex_two", ",".join(ms[:2]), args, k3, "err"))
        for a in pick([a for a in nonlist if a["k"] == "oneof"]):
            k2 = dict(kwargs); k2[a["name"]] = "NO_SUCH_TOKEN"
            cases.append((name, "enum_foreign", a["name"], args, k2, "err"))
        for a in pick([a for a in nonlist if a["k"] == "string" and a["strict"] and a["length"]]):
            if _in_mutex_conflict(c, a["name"], kwargs):
                continue
            L = a["length"]
            k2 = dict(kwargs); k2[a["name"]] = "x" * L
            cases.append((name, "str_at_limit", a["name"], args, k2, "ok"))
            k3 = dict(kwargs); k3[a["name"]] = "x" * (L + 1)
            cases.append((name, "str_overlong", a["name"], args, k3, "err"))
        for a in pick([a for a in nonlist if a["k"] == "integer" and a["length"]]):
            if _in_mutex_conflict(c, a["name"], kwargs):
                continue
            L = a["length"]
            k2 = dict(kwargs); k2[a["name"]] = 10 ** L - 1
            cases.append((name, "int_at_limit", a["name"], args, k2, "ok"))
            k3 = dict(kwargs); k3[a["name"]] = 10 ** L
            cases.append((name, "int_over", a["name"], args, k3, "err"))
            k4 = dict(kwargs); k4[a["name"]] = -(10 ** L)
            cases.append((name, "int_neg_over", a["name"], args, k4, "err"))
            import decimal as _d
            k5 = dict(kwargs); k5[a["name"]] = _d.Decimal(10 ** L)
            cases.append((name, "int_over_as_decimal", a["name"], args, k5, "err"))
            k6 = dict(kwargs); k6[a["name"]] = float(10 ** L)
            cases.append((name, "int_over_as_float", a["name"], args, k6, "err"))
        k2 = dict(kwargs); k2["nosuchattr"] = "1"
        cases.append((name, "unknown_kwarg", "", args, k2, "err"))
        lists = [a for a in c["spec"] if a["k"] in ("listagg", "listelem")]
        if not c["element_list"]:
            if rng.random() < (1.0 if ctx.thorough else 0.3):
                other = rng.choice([x for x in classes if x["name"].lower() not in [a["name"] for a in lists]])
                od, oinst = gen.valid_instance(other["name"])
                if od is not None:
                    cases.append((name, "list_wrong_member", other["name"], args + [oinst], kwargs, "err"))
                cases.append((name, "list_str_member", "", args + ["junk"], kwargs, "err"))
        for a in pick(lists):
            k2 = dict(kwargs); k2[a["name"]] = "1"
            cases.append((name, "list_as_kwarg", a["name"], args, k2, "err"))

    # ---- run both routes --------------------------------------------------------------------
    lines, meta = [], []
    for (name, kind, what, args, kwargs, expect) in cases:
        cls = getattr(gen.M, name)
        idx = cidx[cls]
        # keyword route
        r = quiet(cls, *args, **kwargs)
        meta.append(("kw", name, kind, what, expect, r, None))
        lines.append(kw_line(idx, args, kwargs))
        # tree route (not for kinds that only exist on the keyword route)
        if kind in ("unknown_kwarg", "list_as_kwarg", "list_wrong_member", "int_over_as_decimal", "int_over_as_float",
                    "reqmutex_empty_string"):
            continue
        try:
            tree = tree_from(gen, name, args, kwargs)
        except Exception:
            ctx.stat("tree_from_failed:" + kind)
            continue
        if kind == "list_str_member":
            # a list-member tag carrying text instead of an aggregate
            c = by_name[name]
            la = [a for a in c["spec"] if a["k"] == "listagg"]
            if not la:
                continue
            tree = tree_from(gen, name, args[:-1], kwargs)
            el = ET.Element(la[0]["name"].upper()); el.text = "junk"
            _insert_list_member(tree, c, el)
        r = quiet(Aggregate.from_etree, copy.deepcopy(tree))
        meta.append(("tree", name, kind, what, expect, r, tree))
        lines.append(fromtree_line(tree))
        # order / duplicate faults exist only on the tree route
        if kind == "valid" and len(tree) >= 1:
            c = by_name[name]
            for fault, t2 in _order_faults(tree, c, rng):
                r2 = quiet(Aggregate.from_etree, copy.deepcopy(t2))
                meta.append(("tree", name, fault, "", "err", r2, t2))
                lines.append(fromtree_line(t2))
    replies = ctx.model.ask(lines)
    for (route, name, kind, what, expect, r, tree), rep in zip(meta, replies):
        impl = ["ok", canon_inst(r[1])] if r[0] == "ok" else ["err"]
        model = model_ok_err(rep)
        case = {"route": route, "cls": name, "kind": kind, "what": what}
        if tree is not None:
            case["tree"] = ET.tostring(tree, encoding="unicode")[:2000]
        ctx.stat(f"{route}:{kind}:{impl[0]}")
        if kind == "int_over_as_float":
            ctx.evaluations += 1          # floats are outside the model's value domain: oracle only
        else:
            ctx.compare(f"{route}:{kind}", case, impl, model, nontrivial=True)
        ctx.sample({"case": case, "impl": impl[0], "model": model[0]}, limit=8)
        if expect == "err" and impl[0] == "ok":
            ctx.violate(f"{kind}_accepted", case,
                        f"{name}: a description violating a declared constraint ({kind} {what}) was accepted via the {route} route",
                        {"kind": kind, "route": route})
        if expect == "ok" and impl[0] != "ok" and tree is not None and _has_interleaved_list_block(tree):
            ctx.violate("valid_rejected_list_block", case,
                        f"{name}: a valid document containing TAX1099INT_V100 with an ORIGSTATE member and a later child is rejected",
                        {"cls": "TAX1099INT_V100"})
        elif expect == "ok" and impl[0] != "ok":
            ctx.violate(f"{kind}_rejected", case,
                        f"{name}: a value exactly at the limit ({kind} {what}) was rejected via the {route} route",
                        {"kind": kind, "route": route})
        if r[0] == "ok":
            probs = py_valid(r[1], schema, by_name)
            if probs:
                ctx.violate("invalid_instance_exists", case, f"{name}: instance violates its constraints: {probs[:3]}")


def _has_interleaved_list_block(tree):
    for e in tree.iter("TAX1099INT_V100"):
        tags = [ch.tag for ch in e]
        if "ORIGSTATE" in tags and any(t not in ("ORIGSTATE", "FORINCOME") for t in tags[tags.index("ORIGSTATE"):]):
            return True
    return False


def _in_mutex_conflict(c, attr, kwargs):
    for g in c["opt_mutex"] + c["decl_opt_mutex"] + c["req_mutex"] + c["decl_req_mutex"]:
        if attr in g and any(m != attr and kwargs.get(m) is not None for m in g):
            return True
    if c["extra"] != "none" and kwargs.get(attr) is None:
        return True
    return False


def _insert_list_member(tree, c, el):
    """insert `el` where list members go (at the position of the first list attribute)"""
    names = [a["name"] for a in c["spec"]]
    first = min(i for i, a in enumerate(c["spec"]) if a["k"] in ("listagg", "listelem"))
    pos = 0
    for i, ch in enumerate(list(tree)):
        n = ch.tag.lower()
        if n in names and names.index(n) < first:
            pos = i + 1
    tree.insert(pos, el)


def _order_faults(tree, c, rng):
    """duplicate a non-repeatable child; swap two adjacent children with different spec positions"""
    names = [a["name"] for a in c["spec"]]
    kinds = {a["name"]: a["k"] for a in c["spec"]}
    groomed = {(c["ungroom"] or [None, None])[1]: (c["ungroom"] or [None, None])[0]} if c.get("ungroom") else {}
    out = []
    kids = list(tree)

    def attr_of(ch):
        t = groomed.get(ch.tag, ch.tag)
        return t.lower()
    nonrep = [i for i, ch in enumerate(kids) if attr_of(ch) in names and kinds[attr_of(ch)] not in ("listagg", "listelem")]
    if nonrep:
        i = rng.choice(nonrep)
        if not (c.get("groom") and kids[i].tag == c["groom"][0]):      # a 2nd YIELD/FROM is an unknown tag (C07)
            t2 = copy.deepcopy(tree)
            t2.insert(i + 1, copy.deepcopy(kids[i]))
            out.append(("tree_duplicate", t2))
    swaps = [i for i in range(len(kids) - 1)
             if attr_of(kids[i]) in names and attr_of(kids[i + 1]) in names
             and not (kinds[attr_of(kids[i])] in ("listagg", "listelem") and kinds[attr_of(kids[i + 1])] in ("listagg", "listelem"))
             and attr_of(kids[i]) != attr_of(kids[i + 1])]
    if swaps:
        i = rng.choice(swaps)
        t2 = copy.deepcopy(tree)
        a, b = t2[i], t2[i + 1]
        t2.remove(b)
        t2.insert(i, b)
        out.append(("tree_swap", t2))
    return out


def replay(ctx, data):
    print(data.get("case") or data.get("first_disagreement"))
