"""
C03 — every data element reaches the model with the value its OFX data type assigns.

impl   = Aggregate.from_etree(document)
model  = Agg.fromEtree over the generated schema with Types.conv (driver op `fromtree`)
oracle = independent implementations of the OFX type rules (types_common.ref_denote: positional integers,
         decimals as sign/coefficient/exponent with ',' == '.', one-pass entity decoding, Y/N, enumeration
         membership; C09.ref_classify: date-times / times by integer arithmetic on civil days) applied to every
         data element of the document, compared — path by path — with what the implementation's model holds;
         and the model must hold nothing that is not in the document.
"""
import copy
import datetime
import decimal
import xml.etree.ElementTree as ET

from codec import canon_inst, canon_val, canon_tree, text
from gen.instances import Gen, concrete_classes
from corr.agg_common import blame_class, fromtree_line, quiet, model_ok_err
from corr import types_common as T
from corr import C09 as D

RULE = ("every concrete class: a valid document whose element texts are re-spelled over the lexical space of "
        "their type (signs, leading zeros, both decimal separators, entity spellings incl. nested ones, every "
        "date/time notation with offsets -12:00..+14:00 in all spellings, every enumeration token); "
        "non-trivial and distinct by (class, path, text)")


def respell(rng, kind, conv, enums):
    """a text in the lexical space of the type (or None to keep the original)"""
    kn = T.kname(kind)
    if kn == "bool":
        return rng.choice(["Y", "N"])
    if kn in ("oneof", "enum"):
        return rng.choice(list(conv.valid))
    if kn == "string":
        n = conv.length if conv.length is not None else 30
        for _ in range(6):
            s = T.gen_string(rng, max(1, min(n, 30)))
            s = s.strip()
            d = T.ref_decode(s)
            if s and d and (conv.length is None or len(d) <= conv.length or not conv.strict) and "<" not in s:
                return s
        return None
    if kn == "integer":
        for _ in range(6):
            s = T.gen_int_text(rng, conv.length)
            if T.text_in_model_domain(kind, s) and T.ref_denote(kind, s, enums) not in (None, "none") and s.strip() == s \
                    and "_" not in s:
                return s
        return None
    if kn == "decimal":
        for _ in range(6):
            s = T.gen_dec_text(rng)
            if T.text_in_model_domain(kind, s) and T.ref_denote(kind, s, enums) not in (None, "none") and s.strip() == s \
                    and "_" not in s and "e" not in s.lower():
                return s
        return None
    if kn in ("datetime", "time"):
        is_time = kn == "time"
        if rng.random() < 0.35:
            # boundary spellings: normalisation to UTC crosses midnight (backwards and forwards), extreme offsets
            tods = ["000000[+14]", "003000.000[+5.30:IST]", "000000.000[+0.30]", "235959.999[-12]", "233000[-0.30]",
                    "000000[+1]", "010000.500[+13.45]", "120000[-9.30:X]", "235959[-1]", "000000.001[+12:NZST]"]
            dates = ["20240229", "19991231", "20000101", "19000301", "21991231"]
            s = rng.choice(tods) if is_time else rng.choice(dates) + rng.choice(tods)
            if D.ref_classify(is_time, s).kind == "in":
                return s
        for _ in range(6):
            date = None if is_time else D.gen_date(rng)
            form = rng.randrange(4)
            tod = D.gen_tod(rng) if (is_time or form > 0) else None
            ms = D.gen_ms(rng) if (tod is not None and form in (2, 3)) else None
            off = None
            if tod is not None and form in (1, 3) and rng.random() < 0.8:
                off = D.spell_offset(rng, rng.randint(-720, 840), rng.choice([None, "EST", "UTC", "x y", "é"]))
                if form == 1 and rng.random() < 0.5:
                    ms = None
            s = D.render(date, tod, ms, off)
            r = D.ref_classify(is_time, s)
            if r.kind == "in":
                return s
        return None
    return None


def expected_of(kind, text, enums):
    """canonical expected value: ('val', canon) | ('instant', ms) | None"""
    kn = T.kname(kind)
    if kn in ("datetime", "time"):
        r = D.ref_classify(kn == "time", text)
        return ("instant", r.instant) if r.kind == "in" else None
    d = T.ref_denote(kind, text, enums)
    if d in (None, "none"):
        return None
    return ("val", d[1])


def actual_of(v):
    if isinstance(v, (datetime.datetime, datetime.time)):
        us = D.value_instant_us(v)
        off = v.utcoffset()
        return ("instant", None if us is None or us % 1000 else us // 1000, off == datetime.timedelta(0))
    return ("val", canon_val(v))


def run(ctx):
    from ofxtools.models.base import Aggregate
    schema = ctx.schema
    rng = ctx.rng
    gen = Gen(schema, rng, max_depth=2)
    by_name = gen.by_name
    classes = concrete_classes(schema)
    enums = schema["enums"]
    reps = ctx.budget(1, 12)
    lines, meta = [], []
    for c in classes:
        # the classes whose reader renames a child (groom) get one more document in which that child is present
        forced = [[c["groom"][1].lower()]] if c.get("groom") else []
        for frc in [None] * reps + forced:
            d, inst = gen.valid_instance(c["name"], force=frc)
            if d is None:
                continue
            if frc:
                ctx.stat("renamed_child_present")
            tree = inst.to_etree()
            expected = {}      # path tuple -> expected

            def walk(e, path):
                cc = by_name.get(e.tag)
                if cc is None:
                    return
                cls = getattr(gen.M, e.tag)
                names = {a["name"]: a for a in cc["spec"]}
                li = 0
                ren = {cc["groom"][0]: cc["groom"][1]} if cc.get("groom") else {}
                for ch in e:
                    attr = ren.get(ch.tag, ch.tag).lower()
                    a = names.get(attr)
                    if a is None:
                        continue
                    if a["k"] == "listagg":
                        walk(ch, path + (("item", li),)); li += 1
                    elif a["k"] == "listelem":
                        conv = cls._superdict[attr].converter
                        kind, _ = T.kind_of(conv, enums)
                        _leaf(ch, kind, conv, path + (("item", li),)); li += 1
                    elif a["k"] == "sub":
                        walk(ch, path + (attr,))
                    elif a["k"] == "unsupported":
                        continue
                    else:
                        conv = cls._superdict[attr]
                        kind, _ = T.kind_of(conv, enums)
                        _leaf(ch, kind, conv, path + (attr,))

            def _leaf(ch, kind, conv, path):
                if rng.random() < 0.7:
                    s = respell(rng, kind, conv, enums)
                    if s is not None:
                        ch.text = s
                ex = expected_of(kind, ch.text, enums)
                expected[path] = (T.kname(kind), ch.text, ex)
            walk(tree, ())
            r = quiet(Aggregate.from_etree, copy.deepcopy(tree))
            meta.append((c["name"], tree, expected, r, inst))
            lines.append(fromtree_line(tree))
    replies = ctx.model.ask(lines)
    # whole-document specification (Spec/DocValues.lean: docValues / instValues, the objects of the C03_deep_* theorems),
    # asked for the same documents
    deep = _deep_replies(ctx, [m[1] for m in meta])
    for k, ((name, tree, expected, r, inst0), rep) in enumerate(zip(meta, replies)):
        _deep_compare(ctx, name, tree, expected, r, deep[k])
        impl = ["ok", canon_inst(r[1])] if r[0] == "ok" else ["err"]
        model = model_ok_err(rep)
        case = {"cls": name, "tree": ET.tostring(tree, encoding="unicode")[:3000]}
        ctx.compare("fromtree", case, impl, model)
        ctx.sample({"cls": name, "elements": len(expected), "impl": impl[0]}, limit=6)
        if any(ex is None for (_, _, ex) in expected.values()):
            ctx.stat("doc_with_out_of_space_text")
            continue
        # ---- the same document as text, in a random rendering (end tags present or omitted, CDATA sections, white
        # space or none between tags — also the whole body on one line), through the library's parser: the model it
        # converts to must be the one the element tree converts to
        if r[0] == "ok" and rng.random() < (1.0 if ctx.thorough else 0.5):
            rendered = _render(rng, tree)
            if rendered is not None:
                r2 = quiet(_parse_convert, rendered)
                ctx.evaluations += 1
                ctx.stat("rendered:" + r2[0])
                same = r2[0] == "ok" and canon_inst(r2[1]) == canon_inst(r[1])
                if not same:
                    ctx.violate("rendered_document_converts_differently", dict(case, text=rendered[:3000]),
                                f"{name}: the document written out as text (a rendering with CDATA sections / omitted end "
                                f"tags / no line breaks) converts to " + ("a different model" if r2[0] == "ok" else "an error") +
                                " than its element tree", {"cls": blame_class(inst0)})
        if r[0] != "ok":
            ctx.violate("valid_document_rejected", case, f"{name}: a document whose element texts are all in their lexical space was rejected", {"cls": blame_class(inst0)})
            continue
        inst = r[1]
        actual = {}

        def collect(obj, path):
            for k, v in obj.__dict__.items():
                if isinstance(v, Aggregate):
                    collect(v, path + (k,))
                elif v is not None:
                    actual[path + (k,)] = v
            for j, m in enumerate(list.__iter__(obj)):
                if isinstance(m, Aggregate):
                    collect(m, path + (("item", j),))
                else:
                    actual[path + (("item", j),)] = m
        collect(inst, ())
        for path, (kn, text, ex) in expected.items():
            ctx.stat("kind:" + kn)
            ctx.mark([name, str(path), text])
            ctx.evaluations += 1
            if path not in actual:
                if kn == "string" and T.ref_decode(text) == "":
                    continue
                ctx.violate("element_dropped", dict(case, path=str(path), text=text),
                            f"{name}{path}: data element {text!r} is not in the model", {"kind": kn})
                continue
            act = actual_of(actual[path])
            if ex[0] == "instant":
                ok = act[0] == "instant" and act[1] == ex[1] and act[2]
            else:
                ok = act == ex
            if not ok:
                ctx.violate("element_value_wrong:" + kn, dict(case, path=str(path), text=text),
                            f"{name}{path}: text {text!r} should denote {ex}, model holds {actual[path]!r}", {"kind": kn})
        extra = set(actual) - set(expected)
        if extra:
            ctx.violate("value_not_in_document", dict(case, paths=[str(p) for p in sorted(extra, key=str)][:5]),
                        f"{name}: the model holds values at {sorted(extra, key=str)[:3]} that no data element of the document supplies")


def _path_key(p):
    """protocol path ((a xHEX) | (i N)) ... -> the tuple form used by `walk` / `collect`"""
    from proto import dstr
    return tuple(dstr(st[1]) if st[0] == "a" else ("item", int(st[1])) for st in p)


def _collect_values(inst):
    """walk of the real converted instance: path -> value, every leaf other than None (the code-side twin of
    Spec.instValues)"""
    from ofxtools.models.base import Aggregate
    out = {}

    def go(obj, path):
        for k, v in obj.__dict__.items():
            if isinstance(v, Aggregate):
                go(v, path + (k,))
            elif v is not None:
                out[path + (k,)] = v
        for j, m in enumerate(list.__iter__(obj)):
            if isinstance(m, Aggregate):
                go(m, path + (("item", j),))
            elif m is not None:
                out[path + (("item", j),)] = m
    go(inst, ())
    return out


def _deep_registered():
    """the driver ops of Drv/DocValues.lean exist once the handler is registered in Drv/All.lean (the integrator does
    that from the handoff); until then the whole-document comparison is skipped, afterwards a missing op is an error"""
    import os
    import framework
    try:
        with open(os.path.join(framework.LEAN, "OfxModel", "Drv", "All.lean"), encoding="utf-8") as f:
            return "Ofx.Drv.DocValues.handle" in f.read()
    except OSError:
        return False


def _deep_replies(ctx, trees):
    if not _deep_registered():
        ctx.stat("deep:skipped_handler_not_registered")
        return [None] * len(trees)
    lines = []
    for t in trees:
        ct = text(canon_tree(t))
        lines.append("spec.docvalues " + ct)
        lines.append("spec.instvalues " + ct)
    reps = ctx.model.ask(lines) if lines else []
    return [(reps[2 * i], reps[2 * i + 1]) for i in range(len(trees))]


def _deep_compare(ctx, name, tree, expected, r, reps):
    """ties Spec.docValues / Spec.instValues (the objects of C03_deep_value / C03_deep_nothing_invented) to the code:
    * instValues(model from_etree(t))  ==  the walk of the instance the real from_etree returns (paths and values);
    * docValues(t): its (path, text) list == the data elements the harness's own walk of the document found, and
      its paths == the paths at which the real instance holds a value (up to texts that denote the empty string)."""
    from proto import dstr
    if reps is None:
        return
    drep, irep = reps
    case = {"cls": name, "tree": ET.tostring(tree, encoding="unicode")[:3000]}
    if drep.kind != "ok":
        ctx.disagree("spec.docvalues", case, "ok", drep.raw)
        return
    doc = {}
    for pv in drep.vals[0]:
        doc[_path_key(pv[0])] = dstr(pv[1])
    mine = {p: t for p, (_, t, _) in expected.items() if t}
    ctx.compare("spec.docvalues", case, sorted((str(p), t) for p, t in mine.items()),
                sorted((str(p), t) for p, t in doc.items()), nontrivial=len(doc) > 1)
    if r[0] != "ok":
        ctx.compare("spec.instvalues", case, ["err"], ["err"] if irep.kind == "err" else ["ok?", irep.raw[:200]],
                    nontrivial=False)
        return
    real = _collect_values(r[1])
    impl = sorted((str(p), text(canon_val(v))) for p, v in real.items())
    if irep.kind != "ok":
        ctx.disagree("spec.instvalues", case, impl[:20], irep.raw[:300])
        return
    model = sorted((str(_path_key(pv[0])), text(pv[1])) for pv in irep.vals[0])
    ctx.compare("spec.instvalues", case, impl, model, nontrivial=len(model) > 1)
    # the document's addressed elements and the real instance's values sit at the same places
    ctx.evaluations += 1
    missing = [p for p in doc if p not in real and not (T.ref_decode(doc[p]) == "")]
    extra = [p for p in real if p not in doc]
    if missing or extra:
        ctx.disagree("spec.docvalues.paths", case, {"only_in_instance": [str(p) for p in extra[:5]]},
                     {"only_in_document": [str(p) for p in missing[:5]]})
    ctx.stat("deep:max_depth=%d" % max([len(p) for p in doc] or [0]))
    if any(isinstance(st, tuple) for p in doc for st in p):
        ctx.stat("deep:with_list_member")


def _render(rng, tree):
    """element tree -> body text in a random strict rendering (gen/wire.py), or None when a text cannot be written
    (empty / untrimmed data; '<' in data that cannot go into a CDATA section).  The parser hands element data over
    verbatim (entity spellings are decoded later, by the String converter), so the data is the tree's text itself."""
    from gen import wire as W
    wss = [""] if rng.random() < 0.5 else W.WS_SMALL
    w = lambda: rng.choice(wss)

    def go(e):
        kids = list(e)
        if not W.tag_ok(e.tag):
            raise ValueError(e.tag)
        if not kids and (e.text or "").strip():
            d = e.text
            if d != d.strip():
                raise ValueError(d)
            plain_ok = "<" not in d
            if W.cdata_ok(d) and (not plain_ok or rng.random() < 0.5):
                return ("c", e.tag, d, "", rng.random() < 0.5, w())
            if not plain_ok:
                raise ValueError(d)
            return ("l", e.tag, d, w(), w(), rng.random() < 0.5, w())
        return ("a", e.tag, w(), [go(k) for k in kids], w())
    try:
        return W.rt_doc(go(tree))
    except ValueError:
        return None


def _parse_convert(text_):
    from ofxtools.Parser import TreeBuilder
    from ofxtools.models.base import Aggregate
    b = TreeBuilder()
    b.feed(text_)
    return Aggregate.from_etree(b.close())


def replay(ctx, data):
    print(data.get("case") or data.get("first_disagreement"))
