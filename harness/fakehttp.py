"""
In-process fake HTTP layer + scratch data directory for the client checks (C14, C15).

* `scratch(name)` creates a fresh directory under `<root>/.work/`, points XDG_DATA_HOME / XDG_CONFIG_HOME /
  XDG_CACHE_HOME at it *before* ofxtools is imported (`config.DATADIR` is computed at import time) and, because
  the package may already have been imported by somebody else, also re-binds `ofxtools.config.DATADIR`
  (Client.py reads `config.DATADIR` at call time through the module object).
* `FakeNet` replaces `urllib.request.HTTPHandler.http_open` / `HTTPSHandler.https_open` by a recording fake that
  answers from a script, so that everything above it in urllib really runs (`build_opener`, `Request`,
  `HTTPCookieProcessor(self.cookiejar)`, `HTTPErrorProcessor`, the `do_request_` pre-processor) and
  **no socket is ever opened** (`socket.socket.connect` is replaced by a function that raises, and counts).
* `patch_client()` makes `OFXClient.uuid` a counter and `OFXClient.dtclient` a fixed instant, exactly as the
  repo's own tests do.
* `profrs_bytes(...)` / `status_bytes(...)` build PROFRS responses with ofxtools' own models + serialiser.

Python >= 3.8, stdlib only.
"""
import datetime
import email
import io
import os
import re
import shutil
import socket
import sys
import threading
import urllib.error
import urllib.request
import urllib.response

HERE = os.path.dirname(os.path.abspath(__file__))
ROOT = os.path.dirname(HERE)
WORK = os.path.join(ROOT, ".work")


# ------------------------------------------------------------------------------------------------
# scratch data dir
# ------------------------------------------------------------------------------------------------
def scratch(name):
    """Fresh scratch dir under .work/; XDG_* point into it; ofxtools.config.DATADIR re-bound. -> (dir, DATADIR)"""
    import pathlib
    d = os.path.join(WORK, name)
    shutil.rmtree(d, ignore_errors=True)
    os.makedirs(d, exist_ok=True)
    os.environ["XDG_DATA_HOME"] = os.path.join(d, "data")
    os.environ["XDG_CONFIG_HOME"] = os.path.join(d, "config")
    os.environ["XDG_CACHE_HOME"] = os.path.join(d, "cache")
    already = "ofxtools.config" in sys.modules
    import ofxtools.config as config
    want = pathlib.Path(os.environ["XDG_DATA_HOME"]).resolve() / "ofxtools"
    if already or config.DATADIR != want:
        config.DATADIR = want
    import ofxtools.Client as C
    assert C.config is config
    assert not C.USE_REQUESTS, "the `requests` library is installed: the urllib branch of post_request is not what runs"
    return d, want


def profile_dir():
    import ofxtools.config as config
    return config.DATADIR / "fiprofiles"


def wipe_profiles():
    shutil.rmtree(str(profile_dir()), ignore_errors=True)


# ------------------------------------------------------------------------------------------------
# deterministic uuid / dtclient
# ------------------------------------------------------------------------------------------------
class _Counter:
    def __init__(self):
        self.n = 0
        self.lock = threading.Lock()

    def next(self):
        with self.lock:
            self.n += 1
            return self.n


UUIDS = _Counter()
FIXED_NOW = None


def patch_client():
    """OFXClient.uuid -> the constant 'DEADBEEF' (calls counted in UUIDS), OFXClient.dtclient -> fixed instant (idempotent)."""
    global FIXED_NOW
    import ofxtools.Client as C
    from ofxtools.utils import classproperty, UTC
    FIXED_NOW = datetime.datetime(2017, 4, 1, tzinfo=UTC)
    if getattr(C.OFXClient, "_verif_patched", False):
        return

    def _uuid(cls):
        UUIDS.next()
        return "DEADBEEF"

    C.OFXClient.uuid = classproperty(classmethod(_uuid))
    C.OFXClient.dtclient = lambda self: FIXED_NOW
    C.OFXClient._verif_patched = True


# ------------------------------------------------------------------------------------------------
# fake network
# ------------------------------------------------------------------------------------------------
REDIRECT_TARGET = "https://mirror.elsewhere.example/collect"


class Answer:
    """What the fake server does with one request."""

    def __init__(self, body=b"", cookies=(), status=200, transport_error=False):
        self.body = body
        self.cookies = list(cookies)          # list of "name=value; attrs" strings (one Set-Cookie header each)
        self.status = status
        self.transport_error = transport_error
        #: a 307 / 308 answer names another URL: a client that follows it re-sends the POST (credentials included) there
        self.location = REDIRECT_TARGET if status in (307, 308) else None


class Seen:
    """One recorded request."""
    __slots__ = ("method", "url", "headers", "body", "cookie", "thread", "n", "answer")

    def __init__(self, method, url, headers, body, cookie, n):
        self.method, self.url, self.headers, self.body, self.cookie, self.n = method, url, headers, body, cookie, n
        self.thread = threading.current_thread().name
        self.answer = None

    # ---- what the properties speak about ----
    def field(self, tag):
        m = re.search(rb"<" + tag.encode() + rb">([^<\r\n]*)", self.body or b"")
        return m.group(1).decode("utf-8", "replace").strip() if m else None

    @property
    def kind(self):
        b = self.body or b""
        for k, t in (("profile", b"<PROFRQ>"), ("accounts", b"<ACCTINFORQ>"), ("tax", b"<TAX1099RQ>"),
                     ("statements", b"STMTRQ>"), ("statements", b"STMTENDRQ>")):
            if t in b:
                return k
        # a statements request without any statement is just a signon
        return "statements" if b"<SONRQ>" in b else "unknown"

    @property
    def creds(self):
        return (self.field("USERID"), self.field("USERPASS"))

    @property
    def cookies(self):
        """sorted list of (name, value) sent in Cookie:"""
        if not self.cookie:
            return []
        out = []
        for part in self.cookie.split(";"):
            part = part.strip()
            if part:
                k, _, v = part.partition("=")
                out.append((k, v))
        return sorted(out)

    @property
    def cookie_items(self):
        """the (name, value) items of Cookie: in the order they are on the wire"""
        if not self.cookie:
            return []
        out = []
        for part in self.cookie.split("; "):
            k, _, v = part.partition("=")
            out.append((k, v))
        return out

    def header(self, name):
        for k, v in self.headers:
            if k.lower() == name.lower():
                return v
        return None


class FakeNet:
    """Context manager.  `script(seen) -> Answer` decides every response."""

    def __init__(self, script):
        self.script = script
        self.log = []
        self.lock = threading.Lock()
        self.socket_attempts = 0
        self._saved = None

    # -- the replacement for HTTPHandler.http_open / HTTPSHandler.https_open
    def _open(self, req):
        with self.lock:
            n = len(self.log)
            seen = Seen(req.get_method(), req.full_url, list(req.header_items()), req.data,
                        req.get_header("Cookie"), n)
            self.log.append(seen)
        ans = self.script(seen)
        seen.answer = ans
        if ans.transport_error:
            # the request was delivered (it is in the log); what fails is the answer.  The three shapes a transport
            # failure takes in urllib: wrapped (URLError), a bare read timeout, a connection reset.
            k = n % 3
            if k == 0:
                raise urllib.error.URLError("fake transport failure")
            if k == 1:
                raise socket.timeout("The read operation timed out")
            raise ConnectionResetError(104, "Connection reset by peer")
        raw = "".join("Set-Cookie: %s\r\n" % c for c in ans.cookies)
        if getattr(ans, "location", None):
            raw += "Location: %s\r\n" % ans.location
        raw += "Content-Type: application/x-ofx\r\nContent-Length: %d\r\n\r\n" % len(ans.body)
        import http.client
        headers = email.message_from_string(raw, _class=http.client.HTTPMessage)
        resp = urllib.response.addinfourl(io.BytesIO(ans.body), headers, req.full_url, ans.status)
        resp.msg = "OK" if ans.status == 200 else "ERR"
        return resp

    def __enter__(self):
        net = self

        def http_open(handler, req):
            return net._open(req)

        def no_connect(sock, *a, **k):
            net.socket_attempts += 1
            raise AssertionError("the check tried to open a real socket")

        import ssl
        self._saved = (urllib.request.HTTPHandler.http_open, urllib.request.HTTPSHandler.https_open,
                       socket.socket.connect, socket.create_connection, ssl.SSLContext.load_default_certs)
        # build_opener() instantiates HTTPSHandler, whose constructor loads the system CA bundle (~30 ms per
        # request); nothing below https_open runs here, so the load is skipped
        ssl.SSLContext.load_default_certs = lambda self, purpose=None: None
        urllib.request.HTTPHandler.http_open = http_open
        urllib.request.HTTPSHandler.https_open = http_open
        socket.socket.connect = no_connect
        socket.create_connection = no_connect
        return self

    def __exit__(self, *a):
        import ssl
        (urllib.request.HTTPHandler.http_open, urllib.request.HTTPSHandler.https_open,
         socket.socket.connect, socket.create_connection, ssl.SSLContext.load_default_certs) = self._saved
        return False


class FakeClock:
    """Context manager: `http.cookiejar` reads `time.time()` from this object instead of the system clock (every other
    attribute of the `time` module passes through), so that Max-Age / Expires can be exercised against a clock the check
    moves.  Only the name `time` inside the module `http.cookiejar` is re-bound; nothing else in the process sees it."""

    def __init__(self, now=1_700_000_000):
        self.now = now
        self._saved = None

    def time(self):
        return self.now

    def __getattr__(self, name):
        import time as _time
        return getattr(_time, name)

    def __enter__(self):
        import http.cookiejar
        self._saved = http.cookiejar.time
        http.cookiejar.time = self
        return self

    def __exit__(self, *a):
        import http.cookiejar
        http.cookiejar.time = self._saved
        return False


# ------------------------------------------------------------------------------------------------
# response builders (ofxtools' own models + serialiser)
# ------------------------------------------------------------------------------------------------
EPOCH = datetime.datetime(2000, 1, 1)


def date_of(n):
    """model date (Nat) -> aware datetime; one model unit = one day after 2000-01-01"""
    from ofxtools.utils import UTC
    return (EPOCH + datetime.timedelta(days=n)).replace(tzinfo=UTC)


def nat_of_date(dt):
    """inverse of date_of on whole days; None for anything else (1990-01-01 = 'no profile held')"""
    from ofxtools.utils import UTC
    if dt is None:
        return None
    d = dt.astimezone(UTC).replace(tzinfo=None) - EPOCH
    if d.seconds or d.microseconds or d.days < 0:
        return ("odd", str(dt))
    return d.days


def _core(url):
    from ofxtools.models.profile import MSGSETCORE
    return MSGSETCORE("ENG", ver=1, url=url, ofxsec="NONE", transpsec=True, signonrealm="R",
                      syncmode="LITE", respfileer=False)


def _msgset(kind, url):
    from ofxtools import models as M
    core = _core(url)
    if kind == "signon":
        return M.SIGNONMSGSET(signonmsgsetv1=M.SIGNONMSGSETV1(msgsetcore=core))
    if kind == "prof":
        return M.PROFMSGSET(profmsgsetv1=M.PROFMSGSETV1(msgsetcore=core))
    if kind == "signup":
        return M.SIGNUPMSGSET(signupmsgsetv1=M.SIGNUPMSGSETV1(
            msgsetcore=core, webenroll=M.WEBENROLL(url="https://enroll.example/x"), chguserinfo=False,
            availaccts=True, clientactreq=False))
    if kind == "bank":
        return M.BANKMSGSET(bankmsgsetv1=M.BANKMSGSETV1(
            msgsetcore=core, closingavail=True, emailprof=M.EMAILPROF(canemail=False, cannotify=False)))
    if kind == "bank_noclosing":
        return M.BANKMSGSET(bankmsgsetv1=M.BANKMSGSETV1(
            msgsetcore=core, closingavail=False, emailprof=M.EMAILPROF(canemail=False, cannotify=False)))
    if kind == "cc":
        return M.CREDITCARDMSGSET(creditcardmsgsetv1=M.CREDITCARDMSGSETV1(msgsetcore=core, closingavail=True))
    if kind == "inv":
        return M.INVSTMTMSGSET(invstmtmsgsetv1=M.INVSTMTMSGSETV1(
            msgsetcore=core, trandnld=True, oodnld=False, posdnld=True, baldnld=True, canemail=False))
    if kind == "tax":
        return M.TAX1099MSGSET(tax1099msgsetv1=M.TAX1099MSGSETV1(
            2019, msgsetcore=core, tax1099dnld=True, extd1099b=True))
    raise KeyError(kind)


def _sonrs():
    from ofxtools import models as M
    from ofxtools.utils import UTC
    return M.SIGNONMSGSRSV1(sonrs=M.SONRS(
        status=M.STATUS(code=0, severity="INFO"), dtserver=datetime.datetime(2017, 4, 1, tzinfo=UTC), language="ENG"))


def _wrap(ofx, version=203):
    from ofxtools.header import make_header
    import xml.etree.ElementTree as ET
    header = str(make_header(version=version, newfileuid="NONE" if version < 200 else None))
    return header.encode("ascii") + ET.tostring(ofx.to_etree())


def profrs_bytes(date, body, msgsets, pad=0, version=203):
    """A status-0 PROFTRNRS with DTPROFUP = date_of(date), FINAME = 'FI-<body>', the listed
    (kind, url) message sets, and `pad` extra characters so that different profiles have different lengths."""
    from ofxtools import models as M
    msl = M.MSGSETLIST(*[_msgset(k, u) for k, u in msgsets])
    info = M.SIGNONINFOLIST(M.SIGNONINFO(signonrealm="R", min=4, max=32, chartype="ALPHAORNUMERIC", casesen=True,
                                         special=False, spaces=False, pinch=False))
    profrs = M.PROFRS(msgsetlist=msl, signoninfolist=info, dtprofup=date_of(date), finame="FI-%d" % body,
                      addr1="A" + "x" * min(pad, 30), city="C" + "y" * max(0, min(pad - 30, 30)), state="ST",
                      postalcode="00000", country="USA")
    trn = M.PROFTRNRS(trnuid="1", status=M.STATUS(code=0, severity="INFO"), profrs=profrs)
    return _wrap(M.OFX(signonmsgsrsv1=_sonrs(), profmsgsrsv1=M.PROFMSGSRSV1(trn)), version)


def status_bytes(code, severity=None, version=203):
    """A PROFTRNRS without PROFRS: code 1 = 'client is up to date', anything else = error status."""
    from ofxtools import models as M
    trn = M.PROFTRNRS(trnuid="1", status=M.STATUS(code=code, severity=severity or ("INFO" if code < 2 else "ERROR")))
    return _wrap(M.OFX(signonmsgsrsv1=_sonrs(), profmsgsrsv1=M.PROFMSGSRSV1(trn)), version)


def plain_bytes(ident=0, version=203):
    """Some well-formed OFX response that is not a profile (answer to statement / account / tax requests)."""
    from ofxtools import models as M
    from ofxtools.utils import UTC
    rs = M.ACCTINFORS(dtacctup=datetime.datetime(2017, 1, 1, tzinfo=UTC) + datetime.timedelta(days=ident))
    trn = M.ACCTINFOTRNRS(trnuid="1", status=M.STATUS(code=0, severity="INFO"), acctinfors=rs)
    return _wrap(M.OFX(signonmsgsrsv1=_sonrs(), signupmsgsrsv1=M.SIGNUPMSGSRSV1(trn)), version)


GARBAGE = b"<html><body>502 Bad Gateway</body></html>"


def read_profile(data):
    """bytes -> ('complete', date, body) | ('empty',) | ('torn',)   (the classification the model's disk uses)"""
    if data is None:
        return ("absent",)
    if data == b"":
        return ("empty",)
    try:
        from ofxtools.Parser import OFXTree
        p = OFXTree()
        p.parse(io.BytesIO(data))
        ofx = p.convert()
        trn = ofx.profmsgsrsv1[0]
        prof = trn.profrs
        body = int(prof.finame.split("-")[1])
        d = nat_of_date(prof.dtprofup)
    except Exception:
        return ("torn",)
    return ("complete", d, body)
