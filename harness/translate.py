#!/usr/bin/env python3
"""
Translator: /repo (the working tree, imported) -> lean/OfxModel/Generated/{Schema,Tables}.lean
plus a JSON twin (.work/schema.json) used by the Python generators.

Deterministic (sorted where order is not semantic, no timestamps).  Files are
replaced only when their content changes so that lake rebuilds only what depends
on a real change.

Run:  /venv/bin/python harness/translate.py [--repo /repo] [--out lean/OfxModel/Generated] [--json .work/schema.json]
"""
import argparse
import ast
import hashlib
import inspect
import json
import os
import sys
import textwrap


_POOL = {}


def lean_chars(s: str) -> str:
    """A Lean term of type `Str` (= List Char): an explicit character list (kernel-friendly:
    `"..".toList` costs ~40 ms per literal in `decide +kernel`)."""
    out = []
    for ch in s:
        o = ord(ch)
        if ch == "'":
            out.append("'\\''")
        elif ch == "\\":
            out.append("'\\\\'")
        elif 32 <= o < 127:
            out.append("'" + ch + "'")
        else:
            out.append("'\\u{%x}'" % o)
    return "[" + ", ".join(out) + "]"


def lean_str(s: str) -> str:
    """Interned reference to a `Str` constant (emitted once per file by `pool_defs`)."""
    if s not in _POOL:
        _POOL[s] = f"s{len(_POOL)}"
    return _POOL[s]


def pool_defs(names=None) -> str:
    items = [(v, k) for k, v in _POOL.items()] if names is None else names
    return "\n".join(f"def {ident} : Str := {lean_chars(text)}" for ident, text in items)


def lean_list(items, per_line=0) -> str:
    return "[" + ", ".join(items) + "]"


def lean_opt_nat(v):
    return "none" if v is None else f"(some {int(v)})"


def lean_bool(b):
    return "true" if b else "false"


def ast_fingerprint(obj) -> str:
    """Hash of the AST of a function/class source (insensitive to comments, layout and docstrings)."""
    try:
        src = textwrap.dedent(inspect.getsource(obj))
    except (OSError, TypeError):
        return "unavailable"
    tree = ast.parse(src)
    for node in ast.walk(tree):
        if isinstance(node, (ast.FunctionDef, ast.ClassDef, ast.AsyncFunctionDef, ast.Module)):
            body = node.body
            if body and isinstance(body[0], ast.Expr) and isinstance(getattr(body[0], "value", None), ast.Constant) \
                    and isinstance(body[0].value.value, str):
                node.body = body[1:] or [ast.Pass()]
    return hashlib.sha256(ast.dump(tree, annotate_fields=False, include_attributes=False).encode()).hexdigest()[:16]


EXTRA_RULES = {
    "OFX": "ofx", "SONRQ": "sonrq", "MSGSETCORE": "msgsetcore", "MSGSETLIST": "msgsetlist",
    "MFACHALLENGERS": "mfachallengers", "CONTRIBINFO": "contribinfo",
    "TAX1099MSGSRQV1": "tax1099msgsrqv1", "TAX1099MSGSRSV1": "tax1099msgsrsv1",
    "TAX1099MSGSETV1": "tax1099msgsetv1", "ACCTINFO": "acctinfo", "TAX1099RS": "tax1099rs",
    "CONTRIBSECURITY": "contribsecurity", "EXTDPMT": "extdpmt", "EXTDPAYEE": "extdpayee",
    "TAX1099R_V100": "tax1099r", "TAX1099MISC_V100": "tax1099misc",
}


def extract(repo: str):
    sys.path.insert(0, repo)
    import ofxtools  # noqa
    assert os.path.realpath(ofxtools.__file__).startswith(os.path.realpath(repo) + os.sep), \
        f"ofxtools imported from {ofxtools.__file__}, not from {repo}"
    import ofxtools.models as M
    from ofxtools.models.base import Aggregate, ElementList
    from ofxtools import Types, utils, lib, header as H
    import xml.etree.ElementTree as ET
    import decimal

    classes = [(n, c) for n, c in vars(M).items()
               if inspect.isclass(c) and issubclass(c, Aggregate)]
    # stable order: by name
    classes.sort(key=lambda nc: nc[0])
    index = {c: i for i, (n, c) in enumerate(classes)}
    enums = []          # interned tuples
    enum_index = {}

    def enum_id(valid):
        key = tuple(valid)
        if key not in enum_index:
            enum_index[key] = len(enums)
            enums.append(list(key))
        return enum_index[key]

    problems = []
    unexported = []      # declared children whose class the package namespace does not export (a C13 matter)

    def kind_of(owner, attr, t, inner=False):
        """-> (lean term, json) for a converter"""
        tn = type(t)
        if tn is Types.Unsupported:
            return "Kind.unsupported", {"k": "unsupported"}
        if tn is Types.Bool:
            return "Kind.bool", {"k": "bool"}
        if tn in (Types.String, Types.NagString):
            return (f"Kind.string {lean_opt_nat(t.length)} {lean_bool(t.strict)}",
                    {"k": "string", "length": t.length, "strict": bool(t.strict)})
        if tn is Types.OneOf:
            vals = list(t.valid)
            if not all(isinstance(v, str) for v in vals):
                problems.append(f"{owner}.{attr}: OneOf with non-str tokens")
                vals = [str(v) for v in vals]
            e = enum_id(vals)
            return f"Kind.oneOf {e}", {"k": "oneof", "enum": e}
        if tn is Types.Integer:
            return f"Kind.integer {lean_opt_nat(t.length)}", {"k": "integer", "length": t.length}
        if tn is Types.Decimal:
            if t.scale is None:
                return "Kind.decimal none", {"k": "decimal", "qexp": None}
            tup = t.scale.as_tuple()
            if tup.digits != (1,) or tup.sign != 0:
                problems.append(f"{owner}.{attr}: Decimal quantum {t.scale} is not a power of ten")
            return f"Kind.decimal (some ({int(tup.exponent)}))", {"k": "decimal", "qexp": int(tup.exponent)}
        if tn is Types.DateTime:
            return "Kind.datetime", {"k": "datetime"}
        if tn is Types.Time:
            return "Kind.time", {"k": "time"}
        if tn is Types.ListElement:
            if inner:
                problems.append(f"{owner}.{attr}: nested ListElement")
            lt, js = kind_of(owner, attr, t.converter, inner=True)
            ireq = bool(getattr(t.converter, "required", False))
            return f"Kind.listElem ({lt}) {lean_bool(ireq)}", {"k": "listelem", "inner": js, "inner_required": ireq}
        if tn is Types.ListAggregate:
            tc = t.__type__
            if tc not in index:
                problems.append(f"{owner}.{attr}: ListAggregate target {tc} not in package namespace")
                unexported.append({"owner": owner, "attr": attr, "kind": "listagg", "target": tc.__name__, "module": tc.__module__})
                return "Kind.unsupported", {"k": "unsupported"}
            return f"Kind.listAgg {index[tc]}", {"k": "listagg", "cls": index[tc], "clsname": tc.__name__}
        if tn is Types.SubAggregate:
            tc = t.__type__
            if tc not in index:
                problems.append(f"{owner}.{attr}: SubAggregate target {tc} not in package namespace")
                unexported.append({"owner": owner, "attr": attr, "kind": "sub", "target": tc.__name__, "module": tc.__module__})
                return "Kind.unsupported", {"k": "unsupported"}
            return f"Kind.sub {index[tc]}", {"k": "sub", "cls": index[tc], "clsname": tc.__name__}
        problems.append(f"{owner}.{attr}: unknown converter type {tn.__name__}")
        return "Kind.unsupported", {"k": "unsupported"}

    def rename_of(cls, hook):
        """Behavioural probe of a groom/ungroom override: which single child tag gets renamed."""
        fn = cls.__dict__.get(hook)
        if fn is None:
            # inherited override?
            for b in cls.__mro__[1:]:
                if b in (Aggregate, ElementList):
                    return None
                if hook in b.__dict__:
                    fn = b.__dict__[hook]
                    break
            else:
                return None
        f = fn.__func__ if isinstance(fn, staticmethod) else fn
        consts = set()
        try:
            for node in ast.walk(ast.parse(textwrap.dedent(inspect.getsource(f)))):
                if isinstance(node, ast.Constant) and isinstance(node.value, str):
                    v = node.value.strip()
                    if v.startswith("./"):
                        v = v[2:]
                    if v and v.isupper() and v.isalnum():
                        consts.add(v)
        except (OSError, TypeError):
            pass
        cands = sorted(consts | {a.upper() for a in cls.spec})
        root = ET.Element(cls.__name__)
        for t in cands:
            ET.SubElement(root, t).text = "x"
        out = f(root)
        tags_in = cands
        tags_out = [ch.tag for ch in out]
        if len(tags_out) != len(tags_in):
            problems.append(f"{cls.__name__}.{hook}: changes the number of children on the probe")
            return ("?", "?")
        diffs = [(a, b) for a, b in zip(tags_in, tags_out) if a != b]
        if len(diffs) == 0:
            return None
        if len(diffs) > 1:
            problems.append(f"{cls.__name__}.{hook}: renames more than one tag {diffs}")
        return diffs[0]

    lean_cls = []
    json_cls = []
    for i, (name, cls) in enumerate(classes):
        spec_l, spec_j = [], []
        for attr, t in cls.spec.items():
            kl, kj = kind_of(name, attr, t)
            req = bool(getattr(t, "required", False))
            spec_l.append(f"⟨{lean_str(attr)}, {kl}, {lean_bool(req)}⟩")
            kj = dict(kj)
            kj["name"] = attr
            kj["required"] = req
            spec_j.append(kj)

        def mut(groups):
            return [[str(m) for m in g] for g in groups]

        eff_opt = mut(cls.optionalMutexes)
        eff_req = mut(cls.requiredMutexes)
        decl_opt, decl_req = [], []
        for b in cls.__mro__:
            d = vars(b)
            for g in mut(d.get("optionalMutexes", [])):
                if g not in decl_opt:
                    decl_opt.append(g)
            for g in mut(d.get("requiredMutexes", [])):
                if g not in decl_req:
                    decl_req.append(g)

        def lean_mut(groups):
            return lean_list([lean_list([lean_str(m) for m in g]) for g in groups])

        is_el = issubclass(cls, ElementList)
        # which class in the MRO supplies validate_args
        extra = "none"
        for b in cls.__mro__:
            if "validate_args" in vars(b):
                if b is Aggregate:
                    extra = "none"
                else:
                    extra = EXTRA_RULES.get(b.__name__, "unknown")
                    if b is not cls and extra != "unknown":
                        # an inherited override: the hand model is per class name
                        extra = "unknown"
                break
        g = rename_of(cls, "groom")
        u = rename_of(cls, "ungroom")

        def lean_rename(r):
            return "none" if r is None else f"(some ⟨{lean_str(r[0])}, {lean_str(r[1])}⟩)"

        exported = getattr(M, name, None) is cls and cls.__name__ == name
        hooks = sorted(h for h in ("validate_args", "groom", "ungroom", "_apply_args", "_listAppend",
                                   "__init__", "_convert", "to_etree", "from_etree", "__getattr__",
                                   "_apply_residual_kwargs")
                       if any(h in vars(b) for b in cls.__mro__ if b not in (Aggregate, ElementList, list, object)))
        props = sorted(n for b in cls.__mro__ if b not in (list, object)
                       for n, v in vars(b).items() if isinstance(v, property) and not n.startswith("_"))
        ancestors = [index[b] for b in cls.__mro__[1:] if b in index]
        lean_cls.append(
            "  { name := %s, exported := %s, abstract := %s, ancestors := %s,\n    spec := %s,\n    optMutex := %s, reqMutex := %s,\n"
            "    declOptMutex := %s, declReqMutex := %s,\n    elementList := %s, extra := ExtraRule.%s, groom := %s, ungroom := %s }"
            % (lean_str(cls.__name__), lean_bool(exported), lean_bool(not name.isupper()), lean_list([str(x) for x in ancestors]), lean_list(spec_l), lean_mut(eff_opt), lean_mut(eff_req),
               lean_mut(decl_opt), lean_mut(decl_req), lean_bool(is_el), extra, lean_rename(g), lean_rename(u)))
        json_cls.append({
            "idx": i, "name": cls.__name__, "exported": exported, "spec": spec_j, "ancestors": ancestors,
            "opt_mutex": eff_opt, "req_mutex": eff_req, "decl_opt_mutex": decl_opt, "decl_req_mutex": decl_req,
            "element_list": is_el, "extra": extra, "groom": g, "ungroom": u,
            "hooks": hooks, "props": props, "module": cls.__module__,
            "abstract": not name.isupper(),
        })
        unexpected = [h for h in hooks if h not in ("validate_args", "groom", "ungroom")]
        if unexpected:
            problems.append(f"{name}: overrides unmodelled hook(s) {unexpected}")

    def chunks(names, n=16):
        parts = ["[" + ", ".join(names[i:i + n]) + "]" for i in range(0, len(names), n)]
        return " ++\n  ".join(parts) if parts else "[]"

    cls_defs = "\n\n".join(f"def cls{i} : Cls :=\n{body}" for i, body in enumerate(lean_cls))
    enum_defs = "\n\n".join(f"def enum{i} : List Str := {lean_list([lean_str(v) for v in e])}" for i, e in enumerate(enums))
    schema_lean = (
        "/- GENERATED by harness/translate.py from the imported ofxtools.models — do not edit. -/\n"
        "import OfxModel.Ofx.Schema\n\nnamespace Ofx.Generated.SchemaData\nopen Ofx\n\n"
        + "SCHEMA_POOL_PLACEHOLDER\n\n"
        + enum_defs + "\n\n"
        "def enumTables : List (List Str) :=\n  " + chunks([f"enum{i}" for i in range(len(enums))]) + "\n\n"
        + cls_defs + "\n\n"
        "def classTable : List Cls :=\n  " + chunks([f"cls{i}" for i in range(len(lean_cls))]) + "\n\n"
        "end Ofx.Generated.SchemaData\n\nnamespace Ofx.Generated\nopen Ofx\n\n"
        "def schema : Schema := { classes := SchemaData.classTable, enums := SchemaData.enumTables }\n\n"
        "/- classes by name (so that proofs about particular classes do not depend on their position in the table) -/\n"
        "namespace ByName\n"
        + "\n".join(f"def idx_{cn} : Nat := {i}\ndef cls_{cn} : Cls := SchemaData.cls{i}"
                    for i, (cn, _c) in enumerate(classes) if cn.isidentifier()) + "\n"
        "end ByName\n\n"
        "end Ofx.Generated\n")
    schema_lean = schema_lean.replace("SCHEMA_POOL_PLACEHOLDER", pool_defs())
    _POOL.clear()

    # ---------------- tables ----------------
    import unicodedata
    isspace = [cp for cp in range(0x110000) if chr(cp).isspace()]
    # cp1252 decode table for bytes 0x80..0x9f
    cp1252 = []
    for b in range(0x80, 0xA0):
        try:
            cp1252.append(ord(bytes([b]).decode("cp1252")))
        except UnicodeDecodeError:
            cp1252.append(None)
    html_empty = sorted(getattr(ET, "HTML_EMPTY", set()))
    agencies = list(lib.NUMBERING_AGENCIES.keys())
    tzs = sorted(utils.TZS.items())

    def header_params():
        out = {}
        V1, V2 = H.OFXHeaderV1, H.OFXHeaderV2
        for cls in (V1, V2):
            d = {}
            for k, v in vars(cls).items():
                if isinstance(v, Types.OneOf):
                    d[k] = {"k": "oneof", "valid": [str(x) for x in v.valid], "required": bool(v.required)}
                elif isinstance(v, Types.Integer):
                    d[k] = {"k": "integer", "length": v.length, "required": bool(v.required)}
                elif isinstance(v, Types.String):
                    d[k] = {"k": "string", "length": v.length, "required": bool(v.required)}
            out[cls.__name__] = d
        out["codecs"] = {str(k): str(v) for k, v in V1.codecs.items()}
        return out

    hp = header_params()

    def lean_hfield(d):
        if d["k"] == "oneof":
            return f"HField.oneOf {lean_list([lean_str(x) for x in d['valid']])} {lean_bool(d['required'])}"
        if d["k"] == "integer":
            return f"HField.integer {lean_opt_nat(d['length'])} {lean_bool(d['required'])}"
        return f"HField.string {lean_opt_nat(d['length'])} {lean_bool(d['required'])}"

    tables_lean = (
        "/- GENERATED by harness/translate.py from the running interpreter and the imported ofxtools — do not edit. -/\n"
        "import OfxModel.Proto\n\nnamespace Ofx.Generated\nopen Ofx\n\nnamespace TablesData\nTABLES_POOL_PLACEHOLDER\nend TablesData\nopen TablesData\n\n"
        "/-- keys of `ofxtools.lib.NUMBERING_AGENCIES`, in dict order -/\n"
        f"def numberingAgencies : List Str := {lean_list([lean_str(a) for a in agencies])}\n\n"
        "/-- code points for which `str.isspace()` is true -/\n"
        f"def isspaceCodepoints : List Nat := {lean_list([str(c) for c in isspace])}\n\n"
        "/-- cp1252 decoding of bytes 0x80..0x9F (`none` = undefined, raises) -/\n"
        f"def cp1252High : List (Option Nat) := {lean_list(['none' if c is None else f'(some {c})' for c in cp1252])}\n\n"
        "/-- `xml.etree.ElementTree.HTML_EMPTY` -/\n"
        f"def htmlEmpty : List Str := {lean_list([lean_str(t) for t in html_empty])}\n\n"
        "/-- `ofxtools.utils.TZS` -/\n"
        f"def tzs : List (Str × Int) := {lean_list([f'({lean_str(k)}, ({int(v)} : Int))' for k, v in tzs])}\n\n"
        "/-- `OFXHeaderV1.codecs` -/\n"
        f"def v1Codecs : List (Str × Str) := {lean_list([f'({lean_str(k)}, {lean_str(v)})' for k, v in sorted(hp['codecs'].items())])}\n\n"
        "inductive HField where\n  | oneOf (valid : List Str) (required : Bool)\n  | integer (length : Option Nat) (required : Bool)\n"
        "  | string (length : Option Nat) (required : Bool)\n  deriving Repr, Inhabited\n\n"
        "/-- class-level validators of `OFXHeaderV1` in definition order -/\n"
        f"def headerV1Fields : List (Str × HField) := {lean_list([f'({lean_str(k)}, {lean_hfield(d)})' for k, d in hp['OFXHeaderV1'].items()])}\n\n"
        "/-- class-level validators of `OFXHeaderV2` in definition order -/\n"
        f"def headerV2Fields : List (Str × HField) := {lean_list([f'({lean_str(k)}, {lean_hfield(d)})' for k, d in hp['OFXHeaderV2'].items()])}\n\n"
        "end Ofx.Generated\n")

    tables_lean = tables_lean.replace("TABLES_POOL_PLACEHOLDER", pool_defs())
    _POOL.clear()

    # fingerprints of hand-modelled code
    from ofxtools import Parser, Client
    from ofxtools.scripts import ofxget
    fp_targets = {
        "utils.cusip_checksum": utils.cusip_checksum, "utils.validate_cusip": utils.validate_cusip,
        "utils.sedol_checksum": utils.sedol_checksum, "utils.isin_checksum": utils.isin_checksum,
        "utils.validate_isin": utils.validate_isin, "utils.cusip2isin": utils.cusip2isin,
        "utils.sedol2isin": utils.sedol2isin, "utils.gmt_offset": utils.gmt_offset,
        "utils.indent": utils.indent, "utils.tostring_unclosed_elements": utils.tostring_unclosed_elements,
        "utils.collapseToSingle": utils.collapseToSingle,
        "Parser.TreeBuilder": Parser.TreeBuilder, "Parser.OFXTree": Parser.OFXTree,
        "base.Aggregate": Aggregate, "base.ElementList": ElementList,
        "Types": Types, "header": H, "Client.OFXClient": Client.OFXClient,
        "ofxget": ofxget,
    }
    for n, c in classes:
        for hook in ("validate_args", "groom", "ungroom"):
            if hook in vars(c) and c not in (Aggregate, ElementList):
                fp_targets[f"models.{n}.{hook}"] = vars(c)[hook].__func__ if hasattr(vars(c)[hook], "__func__") else vars(c)[hook]
        for pn, pv in vars(c).items():
            if isinstance(pv, property) and not pn.startswith("_"):
                fp_targets[f"models.{n}.{pn}"] = pv.fget
    fingerprints = {k: ast_fingerprint(v) for k, v in sorted(fp_targets.items())}

    twin = {
        "classes": json_cls, "enums": enums, "problems": problems, "unexported_targets": unexported,
        "agencies": agencies, "isspace": isspace, "cp1252_high": cp1252, "html_empty": html_empty,
        "tzs": dict(tzs), "header": hp, "fingerprints": fingerprints,
        "env": {
            "python": sys.version.split()[0],
            "has_requests": _has("requests"), "has_pytz": _has("pytz"), "has_keyring": _has("keyring"),
        },
    }
    return schema_lean, tables_lean, twin


def _has(mod):
    try:
        __import__(mod)
        return True
    except Exception:
        return False


def write_if_changed(path, content):
    try:
        with open(path, encoding="utf-8") as f:
            if f.read() == content:
                return False
    except FileNotFoundError:
        pass
    os.makedirs(os.path.dirname(path), exist_ok=True)
    tmp = path + ".tmp"
    with open(tmp, "w", encoding="utf-8") as f:
        f.write(content)
    os.replace(tmp, path)
    return True


def main():
    here = os.path.dirname(os.path.abspath(__file__))
    root = os.path.dirname(here)
    ap = argparse.ArgumentParser()
    ap.add_argument("--repo", default=os.environ.get("OFX_REPO", "/repo"))
    ap.add_argument("--out", default=os.path.join(root, "lean", "OfxModel", "Generated"))
    ap.add_argument("--json", default=os.path.join(root, ".work", "schema.json"))
    a = ap.parse_args()
    extra = {}
    try:
        # must run before ofxtools is imported here (points XDG_CONFIG_HOME into .work/)
        import translate_ofxget
        extra = translate_ofxget.main_from(a.repo)
    except ImportError:
        pass
    schema_lean, tables_lean, twin = extract(a.repo)
    try:
        import translate_props
        r_props = translate_props.main_from(a.repo, a.out, os.path.dirname(a.json))
        extra.setdefault("ofxget_problems", []).extend(r_props.get("problems", []))
    except ImportError:
        pass
    ch1 = write_if_changed(os.path.join(a.out, "Schema.lean"), schema_lean)
    ch2 = write_if_changed(os.path.join(a.out, "Tables.lean"), tables_lean)
    write_if_changed(a.json, json.dumps(twin, indent=1, sort_keys=True, ensure_ascii=True))
    print(json.dumps({"schema_changed": ch1, "tables_changed": ch2, "classes": len(twin["classes"]),
                      "enums": len(twin["enums"]), "problems": twin["problems"] + list(extra.get("ofxget_problems", []))}))


if __name__ == "__main__":
    main()
