"""
Check framework: translate -> build -> audit -> correspondence -> verdict -> evidence.
See DESIGN.md section 5.  Python >= 3.8, stdlib only.
"""
import collections
import fcntl
import hashlib
import importlib
import json
import os
import random
import re
import subprocess
import sys
import time
import traceback

HERE = os.path.dirname(os.path.abspath(__file__))
ROOT = os.path.dirname(HERE)
LEAN = os.path.join(ROOT, "lean")
WORK = os.path.join(ROOT, ".work")
REPO = os.environ.get("OFX_REPO", "/repo")
DRIVER = os.path.join(LEAN, ".lake", "build", "bin", "driver")
ACCEPTED_AXIOMS = {"propext", "Classical.choice", "Quot.sound"}
FORBIDDEN_RE = re.compile(r"\bsorry\b|\badmit\b|^\s*axiom\s|native_decide|bv_decide|implemented_by|\bunsafe\s|maxHeartbeats\s+0\b")

sys.path.insert(0, HERE)
import proto  # noqa: E402


def log(*a):
    print(*a, file=sys.stderr, flush=True)


def load_index():
    with open(os.path.join(LEAN, "proofs_index.json")) as f:
        return json.load(f)


# --------------------------------------------------------------------------------------
# E1: translate / build / audit
# --------------------------------------------------------------------------------------
class Lock:
    def __enter__(self):
        os.makedirs(WORK, exist_ok=True)
        self.f = open(os.path.join(WORK, "lock"), "w")
        fcntl.flock(self.f, fcntl.LOCK_EX)
        return self

    def __exit__(self, *a):
        fcntl.flock(self.f, fcntl.LOCK_UN)
        self.f.close()


def translate():
    r = subprocess.run([sys.executable, os.path.join(HERE, "translate.py"), "--repo", REPO],
                       capture_output=True, text=True)
    if r.returncode != 0:
        return None, r.stderr[-4000:]
    try:
        return json.loads(r.stdout.strip().splitlines()[-1]), ""
    except Exception:
        return None, r.stdout[-2000:] + r.stderr[-2000:]


#: properties whose model is the schema generated from ofxtools.models
SCHEMA_PROPS = {"C01", "C03", "C04", "C06", "C07", "C13", "C16", "C17"}


def lake_build(targets, timeout=3000):
    """-> (ok, output); ok is None when the build did not finish within `timeout` (the whole process group is stopped)"""
    import signal
    p = subprocess.Popen(["lake", "build"] + list(targets), cwd=LEAN, stdout=subprocess.PIPE, stderr=subprocess.STDOUT,
                         text=True, start_new_session=True)
    try:
        out, _ = p.communicate(timeout=timeout)
    except subprocess.TimeoutExpired:
        try:
            os.killpg(p.pid, signal.SIGKILL)
        except OSError:
            pass
        out, _ = p.communicate()
        return None, (out or "") + "\n(build stopped after %d s)" % timeout
    return p.returncode == 0, out


def strip_comments(src: str) -> str:
    # remove /- ... -/ (nested) and -- ... comments, and string literals
    out, i, n, depth = [], 0, len(src), 0
    while i < n:
        if src.startswith("/-", i):
            depth += 1
            i += 2
        elif depth and src.startswith("-/", i):
            depth -= 1
            i += 2
        elif depth:
            if src[i] == "\n":
                out.append("\n")
            i += 1
        elif src.startswith("--", i):
            while i < n and src[i] != "\n":
                i += 1
        elif src[i] == '"':
            i += 1
            while i < n and src[i] != '"':
                i += 2 if src[i] == "\\" else 1
            i += 1
            out.append('""')
        else:
            out.append(src[i])
            i += 1
    return "".join(out)


def source_scan():
    """Forbidden constructs anywhere under lean/ (outside comments/strings, outside .lake and Generated)."""
    hits = []
    for base, dirs, files in os.walk(LEAN):
        dirs[:] = [d for d in dirs if d not in (".lake",)]
        for fn in files:
            if not fn.endswith(".lean"):
                continue
            p = os.path.join(base, fn)
            with open(p, encoding="utf-8") as f:
                src = strip_comments(f.read())
            for ln, text in enumerate(src.splitlines(), 1):
                if FORBIDDEN_RE.search(text):
                    hits.append(f"{os.path.relpath(p, LEAN)}:{ln}: {text.strip()[:120]}")
    return hits


def audit(prop, entry):
    """`#print axioms` for every theorem of the property. -> dict name -> {'ok':bool,'axioms':[...],'msg':...}"""
    thms = entry.get("theorems", [])
    mods = entry.get("modules", [])
    os.makedirs(WORK, exist_ok=True)
    path = os.path.join(WORK, f"Audit_{prop}.lean")
    with open(path, "w") as f:
        for m in mods:
            f.write(f"import {m}\n")
        for t in thms:
            f.write(f"#print axioms {t}\n")
    r = subprocess.run(["lake", "env", "lean", path], cwd=LEAN, capture_output=True, text=True, timeout=1800)
    out = r.stdout + r.stderr
    res = {t: {"ok": False, "axioms": None, "msg": "no output"} for t in thms}
    # outputs: "'name' depends on axioms: [a, b]" | "'name' does not depend on any axioms"
    flat = re.sub(r"\n\s+", " ", out)
    for m in re.finditer(r"'([^']+)' depends on axioms: \[([^\]]*)\]", flat):
        ax = [a.strip() for a in m.group(2).split(",") if a.strip()]
        if m.group(1) in res:
            bad = [a for a in ax if a not in ACCEPTED_AXIOMS]
            res[m.group(1)] = {"ok": not bad, "axioms": ax, "msg": "" if not bad else f"unaccepted axioms {bad}"}
    for m in re.finditer(r"'([^']+)' does not depend on any axioms", flat):
        if m.group(1) in res:
            res[m.group(1)] = {"ok": True, "axioms": [], "msg": ""}
    for t in thms:
        if res[t]["axioms"] is None:
            mm = re.search(r"error:[^\n]*" + re.escape(t.split(".")[-1]) + r"[^\n]*", out)
            res[t]["msg"] = mm.group(0) if mm else "not found / did not elaborate"
    return res, out


def tie_audit(prop, entry):
    """Which code-model definitions do the property's theorem STATEMENTS mention, and does the compiled driver execute
    each of them (lean/TieAudit.lean)?  -> dict(statement_definitions, executed_by_driver, compositions, not_executed) or None"""
    thms = entry.get("theorems", [])
    mods = entry.get("modules", []) + entry.get("gen_modules", [])
    path = os.path.join(WORK, f"Tie_{prop}.lean")
    with open(path, "w") as f:
        f.write("import TieAudit\n")
        for m in mods:
            f.write(f"import {m}\n")
        f.write("#eval TieAudit.run [%s]\n" % ", ".join("`" + t for t in thms))
    try:
        r = subprocess.run(["lake", "env", "lean", path], cwd=LEAN, capture_output=True, text=True, timeout=900)
    except subprocess.TimeoutExpired:
        return None
    ment, comp, unt, seen = set(), set(), {}, 0
    for line in r.stdout.splitlines():
        if not line.startswith("{"):
            continue
        try:
            d = json.loads(line)
        except ValueError:
            continue
        seen += 1
        ment.update(d.get("mentions", []))
        comp.update(d.get("compositions", []))
        for u in d.get("untied", []):
            unt.setdefault(u, []).append(d["theorem"])
    if seen != len(thms):
        return None
    return {"statement_definitions": len(ment), "executed_by_driver": len(ment) - len(comp) - len(unt),
            "compositions_of_executed_definitions": sorted(comp), "not_executed": {k: v[:3] for k, v in sorted(unt.items())}}


# --------------------------------------------------------------------------------------
# E2: driver access
# --------------------------------------------------------------------------------------
class Model:
    """Batch access to the compiled Lean driver."""

    def __init__(self):
        self.lines = 0

    def ask(self, lines):
        lines = list(lines)
        if not lines:
            return []
        data = ("\n".join(lines) + "\n").encode("ascii")
        r = subprocess.run([DRIVER], input=data, capture_output=True, timeout=3600)
        if r.returncode != 0:
            raise RuntimeError(f"driver exited {r.returncode}: {r.stderr[-2000:]!r}")
        out = r.stdout.decode("ascii").splitlines()
        if len(out) != len(lines):
            raise RuntimeError(f"driver returned {len(out)} lines for {len(lines)} requests")
        self.lines += len(lines)
        return [proto.Reply(o) for o in out]

    def ask1(self, ln):
        return self.ask([ln])[0]


# --------------------------------------------------------------------------------------
# run context handed to harness/corr/Cnn.py
# --------------------------------------------------------------------------------------
class Violation:
    def __init__(self, kind, tag, case, what, detail=None):
        self.kind = kind          # 'property' (oracle rejects the implementation) | 'correspondence' | 'proof'
        self.tag = tag            # classifier of the minimised failing case (matched against known findings)
        self.case = case          # JSON-able replay data
        self.what = what
        self.detail = detail or {}


class Ctx:
    def __init__(self, prop, tier, seed):
        self.prop, self.tier, self.seed = prop, tier, seed
        self.rng = random.Random(f"{prop}/{seed}")
        self.model = Model()
        self.evaluations = 0
        self.nontrivial = set()
        self.samples = []
        self.stats = collections.Counter()
        self.violations = []
        self.disagreements = []
        self.exhaustive = []
        self.notes = []
        self.t0 = time.time()
        self.schema = None
        self.escalated = False
        p = os.path.join(WORK, "schema.json")
        if os.path.exists(p):
            with open(p) as f:
                self.schema = json.load(f)

    # budgets -------------------------------------------------------------------------
    @property
    def thorough(self):
        return self.tier == "thorough"

    def budget(self, quick, thorough=None):
        b = (thorough if thorough is not None else quick * 20) if self.thorough else quick
        return int(b * float(os.environ.get("VERIF_BUDGET_SCALE", "1")))

    # bookkeeping ---------------------------------------------------------------------
    def mark(self, key):
        """record a distinct non-trivial case (key must identify the canonical input)"""
        if not isinstance(key, str):
            key = json.dumps(key, sort_keys=True, default=str)
        self.nontrivial.add(hashlib.sha1(key.encode("utf-8", "surrogatepass")).digest()[:10])

    def sample(self, case, limit=12):
        if len(self.samples) < limit:
            self.samples.append(case)

    def stat(self, name, n=1):
        self.stats[name] += n

    def disagree(self, op, case, impl, model):
        """implementation and model differ on `case`"""
        self.disagreements.append({"op": op, "case": case, "impl": impl, "model": model})

    def violate(self, tag, case, what, detail=None):
        """the property's oracle rejects what the implementation did on `case`"""
        self.violations.append(Violation("property", tag, case, what, detail))

    def compare(self, op, case, impl, model, nontrivial=True):
        self.evaluations += 1
        if impl != model:
            self.disagree(op, case, impl, model)
            return False
        if nontrivial:
            self.mark([op, case])
        return True


def canon_exc(e):
    """Python exception -> model error enum name"""
    import decimal
    name = type(e).__name__
    mro = [c.__name__ for c in type(e).__mro__]
    if "OFXHeaderError" in mro:
        return "header"
    if "ParseError" in mro:
        return "parse"
    if "OFXSpecError" in mro:
        return "spec"
    if isinstance(e, (UnicodeDecodeError, UnicodeEncodeError)):
        return "unicode"
    if isinstance(e, decimal.DecimalException):
        return "decimal"
    if isinstance(e, AssertionError):
        return "assert"
    if isinstance(e, KeyError):
        return "key"
    if isinstance(e, IndexError):
        return "index"
    if isinstance(e, AttributeError):
        return "attr"
    if isinstance(e, TypeError):
        return "type"
    if isinstance(e, OverflowError):
        return "overflow"
    if isinstance(e, SyntaxError):
        return "syntax"
    if isinstance(e, ValueError):
        return "value"
    return "other"


def run_impl(f, *a, **k):
    """-> ('ok', value) | ('err', kind)"""
    try:
        return ("ok", f(*a, **k))
    except Exception as e:  # noqa
        return ("err", canon_exc(e))


# --------------------------------------------------------------------------------------
# known findings
# --------------------------------------------------------------------------------------
def load_findings(prop):
    p = os.path.join(ROOT, "known_findings.json")
    if not os.path.exists(p):
        return []
    with open(p) as f:
        return [e for e in json.load(f)["findings"] if e["property"] == prop]


def match_finding(v, findings):
    for e in findings:
        if e.get("status") != "known":
            continue
        if e.get("tag") != v.tag:
            continue
        params = e.get("params") or {}
        if all(v.detail.get(k) == val for k, val in params.items()):
            return e
    return None



# --------------------------------------------------------------------------------------
# which lines of the implementation did the correspondence execute?  (evidence only: it bounds what E2 can see)
# --------------------------------------------------------------------------------------
class ImplCoverage:
    """Line coverage of <repo>/ofxtools/*.py during E2, by sys.monitoring (Python >= 3.12; otherwise absent).
    Each location reports once and is then disabled, so the overhead is negligible."""
    FILES = ["Types.py", "Parser.py", "header.py", "utils.py", "Client.py", "models/base.py", "scripts/ofxget.py"]

    def __init__(self, repo):
        self.prefix = os.path.join(os.path.realpath(repo), "ofxtools") + os.sep
        self.hits = set()
        self.on = False
        self.mon = getattr(sys, "monitoring", None)

    def start(self):
        if self.mon is None:
            return
        try:
            self.mon.use_tool_id(self.mon.COVERAGE_ID, "verif")
            self.mon.register_callback(self.mon.COVERAGE_ID, self.mon.events.LINE, self._line)
            self.mon.set_events(self.mon.COVERAGE_ID, self.mon.events.LINE)
            self.on = True
        except Exception:   # noqa  (another tool holds the id)
            self.on = False

    def _line(self, code, line):
        fn = code.co_filename
        if fn.startswith(self.prefix):
            self.hits.add((fn, line))
        return self.mon.DISABLE

    def stop(self):
        if self.on:
            self.mon.set_events(self.mon.COVERAGE_ID, 0)
            self.mon.free_tool_id(self.mon.COVERAGE_ID)
            self.on = False

    @staticmethod
    def _executable(path):
        out = set()
        try:
            with open(path, encoding="utf-8") as f:
                top = compile(f.read(), path, "exec")
        except Exception:   # noqa
            return out
        stack = [top]
        while stack:
            c = stack.pop()
            if c is not top:   # module-level lines run at import time, before monitoring starts
                first = c.co_firstlineno
                for _, _, ln in c.co_lines():
                    if ln is not None and ln != first:
                        out.add(ln)
            stack.extend(k for k in c.co_consts if hasattr(k, "co_lines"))
        return out

    @staticmethod
    def _ranges(xs):
        out, i = [], 0
        while i < len(xs):
            j = i
            while j + 1 < len(xs) and xs[j + 1] == xs[j] + 1:
                j += 1
            out.append(str(xs[i]) if i == j else f"{xs[i]}-{xs[j]}")
            i = j + 1
        return " ".join(out)

    def summary(self):
        if self.mon is None:
            return {"note": "sys.monitoring not available"}
        res = {}
        by = collections.defaultdict(set)
        for fn, ln in self.hits:
            by[fn].add(ln)
        for rel in self.FILES:
            path = self.prefix + rel
            ex = self._executable(path)
            hit = by.get(os.path.realpath(path), set()) | by.get(path, set())
            res[rel] = {"function_body_lines": len(ex), "executed": len(ex & hit), "executed_lines": self._ranges(sorted(ex & hit))}
        others = sorted({os.path.relpath(fn, self.prefix) for fn in by} - set(self.FILES))
        res["other_files_touched"] = len(others)
        return res

# --------------------------------------------------------------------------------------
# main entry
# --------------------------------------------------------------------------------------
TRUSTED_BASE = [
    "Lean 4.33.0 kernel; axioms accepted: propext, Classical.choice, Quot.sound (audited per theorem with #print axioms)",
    "no sorry/admit/axiom/native_decide/bv_decide/implemented_by/unsafe in lean/ (source scan on every run)",
    "harness/translate.py (introspection of the imported /repo package) and CPython import semantics",
    "correspondence harness (generators, canonicalisation, fakes) and the compiled Lean driver: testing, validates the model against /repo, never replaces a theorem",
]


def write_replay(prop, name, data):
    d = os.path.join(ROOT, "replays")
    os.makedirs(d, exist_ok=True)
    path = os.path.join(d, f"{prop}-{name}.json")
    with open(path, "w") as f:
        json.dump(data, f, indent=1, sort_keys=True, default=str)
    return os.path.relpath(path, ROOT)


def main(argv=None):
    import argparse
    ap = argparse.ArgumentParser()
    ap.add_argument("prop")
    ap.add_argument("--tier", default=os.environ.get("VERIF_TIER", "quick"), choices=["quick", "thorough"])
    ap.add_argument("--replay")
    ap.add_argument("--no-build", action="store_true", help="skip translate/build/audit (development only)")
    a = ap.parse_args(argv)
    prop, tier = a.prop, a.tier
    seed = int(os.environ.get("VERIF_SEED", "0") or 0)
    t0 = time.time()
    index = load_index()
    if prop not in index:
        log(f"unknown property {prop}")
        return 2
    entry = index[prop]
    os.makedirs(WORK, exist_ok=True)
    if not a.replay:
        rd = os.path.join(ROOT, "replays")
        if os.path.isdir(rd):
            for fn in os.listdir(rd):
                if fn.startswith(prop + "-") and fn.endswith(".json"):
                    os.remove(os.path.join(rd, fn))

    proof_fail = []       # undischarged obligations: (name, message)
    obligations = []
    discharged = []
    translator_problems = []
    witness_ok, witness_bad, witness_skipped = [], [], []
    audit_res = {}
    tie_res = None
    build_out = ""
    # ---- E1 -----------------------------------------------------------------------
    if not a.no_build:
        with Lock():
            tr, err = translate()
            if tr is None:
                log("translator failed:\n" + err)
                print(f"INFRA-ERROR property={prop} translator failed (is the package importable?)")
                return 2
            if tr["problems"]:
                log("translator notes: " + "; ".join(tr["problems"]))
                # what the translator cannot represent is silently absent from the model (a child of an unknown
                # converter type is treated as unsupported, i.e. skipped): for the properties that quantify over the
                # model classes the tie to the source is then broken, and that is an obligation, not a note
                if prop in SCHEMA_PROPS:
                    translator_problems = list(tr["problems"])
            ok_model, out_model = lake_build(["driver", "TieAudit"])
            if not ok_model:
                log(out_model[-6000:])
                print(f"INFRA-ERROR property={prop} the model/driver does not build")
                return 2
            mods = entry.get("modules", [])
            gen_mods = entry.get("gen_modules", [])
            ok_mods = {}
            for m in mods + gen_mods:
                okm, outm = lake_build([m])
                ok_mods[m] = okm
                if not okm:
                    build_out += outm
            scan = source_scan()
            if all(ok_mods.get(m) for m in mods + gen_mods):
                audit_res, audit_out = audit(prop, {"theorems": entry.get("theorems", []), "modules": mods + gen_mods})
                tie_res = tie_audit(prop, entry)
            else:
                good = [m for m in mods + gen_mods if ok_mods[m]]
                audit_res, audit_out = audit(prop, {"theorems": entry.get("theorems", []), "modules": good})
            # non-vacuity witnesses: class-specific examples kept apart from the obligations — if one stops building
            # the theorems still stand, so this is a note, not a broken obligation
            for m in entry.get("witness_modules", []):
                # witnesses are examples, not obligations: in the quick tier a witness module that has to be re-evaluated
                # from scratch (its tables depend on the generated schema) gets a bounded time
                okw, outw = lake_build([m], timeout=(3000 if tier == "thorough" else 240))
                if okw:
                    witness_ok.append(m)
                elif okw is None:
                    witness_skipped.append(m)
                else:
                    errs_w = re.findall(r"error: [^\n]*", outw)
                    witness_bad.append((m, "; ".join(errs_w[:3]) or "build failed"))
            if tier == "thorough" and all(ok_mods.values()):
                r = subprocess.run(["lake", "env", "leanchecker"] + mods + gen_mods, cwd=LEAN, capture_output=True, text=True)
                if r.returncode != 0:
                    proof_fail.append(("leanchecker", (r.stdout + r.stderr)[-1500:]))
        for t in entry.get("theorems", []):
            obligations.append(t)
            res = audit_res.get(t, {"ok": False, "msg": "not audited"})
            if res["ok"]:
                discharged.append(t)
            else:
                proof_fail.append((t, res["msg"]))
        if prop in SCHEMA_PROPS:
            obligations.append("translator: every class attribute of ofxtools.models is represented in the generated schema")
            if translator_problems:
                proof_fail.append(("translator", "; ".join(translator_problems[:6])))
            else:
                discharged.append(obligations[-1])
        if tie_res is not None:
            obligations.append("tie: every model definition the theorems' statements mention is executed by the compiled driver "
                               "(or is a non-recursive composition of executed definitions), hence compared with the implementation")
            if tie_res["not_executed"]:
                proof_fail.append(("tie", "model definitions in theorem statements that the driver never executes: "
                                   + ", ".join(list(tie_res["not_executed"])[:8])))
            else:
                discharged.append(obligations[-1])
        obligations.append("source-scan: no sorry/admit/axiom/native_decide/bv_decide/implemented_by/unsafe/maxHeartbeats 0")
        if scan:
            proof_fail.append(("source-scan", "; ".join(scan[:10])))
        else:
            discharged.append(obligations[-1])
        for m, okm in ok_mods.items():
            obligations.append(f"module {m} builds")
            if okm:
                discharged.append(obligations[-1])
            else:
                errs = re.findall(r"error: [^\n]*", build_out)
                proof_fail.append((f"module {m}", "; ".join(errs[:6]) or "build failed"))
    # ---- E2 -----------------------------------------------------------------------
    ctx = Ctx(prop, tier, seed)
    ctx.proof_fail = proof_fail
    if witness_ok:
        ctx.notes.append({"non_vacuity_witness_modules_checked": witness_ok})
    if witness_skipped:
        ctx.notes.append({"non_vacuity_witness_modules_not_rebuilt_within_quick_budget": witness_skipped})
    for m, why in witness_bad:
        ctx.notes.append({"non_vacuity_witness_no_longer_checks": m, "why": why,
                          "meaning": "a class-specific example of the theorems' hypotheses stopped building; the theorems are unaffected"})
        log(f"note: witness module {m} does not build: {why}")
    sys.path.insert(0, REPO)
    infra = None
    impl_cov = ImplCoverage(REPO)
    impl_cov.start()
    try:
        mod = importlib.import_module(f"corr.{prop}")
        if a.replay:
            with open(a.replay) as f:
                mod.replay(ctx, json.load(f))
        else:
            mod.run(ctx)
            if (ctx.disagreements or proof_fail) and not ctx.violations:
                # something no longer checks: widen the search for a concrete failing input
                ctx.notes.append("escalated search: a proof obligation or the correspondence broke")
                ctx.escalated = True
                os.environ["VERIF_BUDGET_SCALE"] = str(10 * float(os.environ.get("VERIF_BUDGET_SCALE", "1")))
                (getattr(mod, "search", None) or mod.run)(ctx)
    except Exception:
        infra = traceback.format_exc()
        log(infra)
    impl_cov.stop()
    # ---- verdict --------------------------------------------------------------------
    findings = load_findings(prop)
    printed = set()
    viol_lines = []
    known_hit = collections.Counter()
    new_violations = []
    for v in ctx.violations:
        e = match_finding(v, findings)
        if e is not None:
            known_hit[e["id"]] += 1
        else:
            new_violations.append(v)
    for e in findings:
        if e.get("status") == "known" and known_hit[e["id"]]:
            print(f"KNOWN-FINDING: property={prop} {e['id']}: {e['what']}")
    # group new property violations by tag, one replay each
    by_tag = collections.OrderedDict()
    for v in new_violations:
        by_tag.setdefault(v.tag, []).append(v)
    n_viol = 0
    for tag, vs in by_tag.items():
        v = vs[0]
        path = write_replay(prop, re.sub(r"[^A-Za-z0-9_.-]", "_", tag)[:60], {
            "property": prop, "kind": v.kind, "tag": tag, "what": v.what, "case": v.case,
            "detail": v.detail, "count": len(vs), "seed": seed, "tier": tier})
        print(f"VIOLATION property={prop} replay={path}")
        n_viol += 1
    found_input = n_viol > 0
    if ctx.disagreements and not found_input:
        d = ctx.disagreements[0]
        path = write_replay(prop, "correspondence", {
            "property": prop, "kind": "correspondence", "op": d["op"], "first_disagreement": d,
            "count": len(ctx.disagreements), "others": ctx.disagreements[1:6], "seed": seed, "tier": tier,
            "note": "model and implementation disagree; the property's oracle accepted everything the implementation did on the inputs searched"})
        print(f"VIOLATION property={prop} replay={path} no-failing-input-found")
        n_viol += 1
    elif ctx.disagreements:
        log(f"{len(ctx.disagreements)} correspondence disagreement(s) as well; first: {ctx.disagreements[0]}")
    if proof_fail and not found_input:
        path = write_replay(prop, "proof", {
            "property": prop, "kind": "proof", "undischarged": [{"obligation": n, "message": m} for n, m in proof_fail],
            "seed": seed, "tier": tier,
            "note": "a proof obligation no longer checks; no failing input was found on the implementation"})
        print(f"VIOLATION property={prop} replay={path} no-failing-input-found")
        n_viol += 1
    elif proof_fail:
        log("undischarged obligations: " + "; ".join(n for n, _ in proof_fail))
    # ---- evidence -------------------------------------------------------------------
    ev = {
        "property_id": prop, "tier": tier, "seed": seed, "level": "proof",
        "coverage": {
            "obligations": len(obligations), "discharged": len(discharged),
            "obligation_names": obligations,
            "undischarged": [n for n, _ in proof_fail],
            "axioms": {t: r.get("axioms") for t, r in audit_res.items()},
            "checker_cmd": f"cd lean && lake build {' '.join(entry.get('modules', []) + entry.get('gen_modules', []))} && lake env lean .work/Audit_{prop}.lean"
                           + (" && lake env leanchecker <modules>" if tier == "thorough" else ""),
            "trusted_base": TRUSTED_BASE + entry.get("trusted_extra", []),
            "evaluations": ctx.evaluations,
            "distinct_nontrivial": len(ctx.nontrivial),
            "rule": getattr(sys.modules.get(f"corr.{prop}"), "RULE", ""),
            "samples": ctx.samples or [{"note": "no correspondence case ran"}],
            "distribution": dict(sorted(ctx.stats.items())),
            "disagreements_checked": len(ctx.disagreements),
            "model_lines": ctx.model.lines,
            "known_findings_replayed": dict(known_hit),
            "exhaustive_spaces": ctx.exhaustive,
            "exhaustive": bool(ctx.exhaustive) and tier == "thorough",
            "implementation_lines": impl_cov.summary(),
            "tie_audit": tie_res if tie_res is not None else {"note": "not run (a module did not build, or --no-build)"},
            "notes": ctx.notes + ([{"harness_crash": infra[-1500:]}] if infra else []),
        },
        "assumptions": entry.get("assumptions", []),
        "wall_s": round(time.time() - t0, 2),
        "violations": n_viol,
    }
    if a.no_build:
        ev["coverage"]["notes"].append("run with --no-build: proofs not re-checked in this run")
        ev["coverage"]["obligations"] = max(1, len(entry.get("theorems", [])))
        ev["coverage"]["discharged"] = 0
    # runs against a tree other than /repo (seeded-change tests) keep their evidence apart
    evdir = os.environ.get("VERIF_EVIDENCE_DIR") or os.path.join(ROOT, "evidence")
    os.makedirs(evdir, exist_ok=True)
    with open(os.path.join(evdir, f"{prop}.json"), "w") as f:
        json.dump(ev, f, indent=1, sort_keys=True, default=str)
    if infra and not n_viol:
        print(f"INFRA-ERROR property={prop} correspondence harness crashed (see stderr)")
        return 2
    if infra:
        log("the correspondence harness crashed after a violation had been established; reporting the violation")
    log(f"{prop} {tier}: obligations {len(discharged)}/{len(obligations)}, evaluations {ctx.evaluations}, "
        f"distinct non-trivial {len(ctx.nontrivial)}, disagreements {len(ctx.disagreements)}, "
        f"violations {n_viol}, known {dict(known_hit)}, {ev['wall_s']} s")
    return 1 if n_viol else 0


if __name__ == "__main__":
    sys.exit(main())
