#!/usr/bin/env python3
"""
Translator for the ofxget layer (C18/C19): ofxtools.scripts.ofxget (imported from the working tree)
-> lean/OfxModel/Generated/OfxgetTables.lean  + JSON twin .work/ofxget.json.

Data only: DEFAULTS, CONFIGURABLE (with types, in dict order), the argparse defaults of every
subcommand (what `make_argparser` puts into the namespace when an option is not typed),
NULL_ARGS, and the configparser constants the hand model relies on (BOOLEAN_STATES,
MAX_INTERPOLATION_DEPTH, default section name).

Importing ofxget reads the user's ofxget.cfg; XDG_CONFIG_HOME/XDG_DATA_HOME are pointed into .work/
first so that nothing outside the framework is touched.

Called by translate.py as  `import translate_ofxget; translate_ofxget.main_from(repo, out_dir, work_dir)`
or stand-alone:  /venv/bin/python harness/translate_ofxget.py [--repo /repo]
"""
import argparse
import json
import os
import sys

HERE = os.path.dirname(os.path.abspath(__file__))
ROOT = os.path.dirname(HERE)


def lean_str(s: str) -> str:
    out = []
    for ch in s:
        o = ord(ch)
        if ch == '"':
            out.append('\\"')
        elif ch == "\\":
            out.append("\\\\")
        elif 32 <= o < 127:
            out.append(ch)
        else:
            out.append("\\u{%x}" % o)
    return '"' + "".join(out) + '".toList'


def lean_val(v, problems, where):
    if v is None:
        return "CfgVal.null"
    if isinstance(v, bool):
        return f"CfgVal.bool {'true' if v else 'false'}"
    if isinstance(v, int):
        return f"CfgVal.int ({v})"
    if isinstance(v, str):
        return f"CfgVal.str {lean_str(v)}"
    if isinstance(v, list) and all(isinstance(x, str) for x in v):
        return "CfgVal.list [" + ", ".join(lean_str(x) for x in v) + "]"
    problems.append(f"{where}: value {v!r} of unsupported type {type(v).__name__}")
    return "CfgVal.null"


def json_val(v):
    if v is None or isinstance(v, (bool, int, str)):
        return v
    if isinstance(v, list):
        return [json_val(x) for x in v]
    return repr(v)


TYNAME = {str: "str", int: "int", bool: "bool", list: "list"}


def extract(repo, work):
    os.makedirs(os.path.join(work, "ofxget_translate", "cfg"), exist_ok=True)
    os.makedirs(os.path.join(work, "ofxget_translate", "data"), exist_ok=True)
    os.environ["XDG_CONFIG_HOME"] = os.path.join(work, "ofxget_translate", "cfg")
    os.environ["XDG_DATA_HOME"] = os.path.join(work, "ofxget_translate", "data")
    if repo not in sys.path:
        sys.path.insert(0, repo)
    import configparser
    import ofxtools
    assert os.path.realpath(ofxtools.__file__).startswith(os.path.realpath(repo) + os.sep), \
        f"ofxtools imported from {ofxtools.__file__}, not from {repo}"
    from ofxtools.scripts import ofxget
    from ofxtools import models

    problems = []
    defaults = list(ofxget.DEFAULTS.items())
    configurable = []
    for k, t in ofxget.CONFIGURABLE.items():
        if t not in TYNAME:
            problems.append(f"CONFIGURABLE[{k!r}] has unsupported type {t!r}")
            continue
        configurable.append((k, TYNAME[t]))
    null_args = list(ofxget.NULL_ARGS)
    if null_args != [None, "", []]:
        problems.append(f"NULL_ARGS is {null_args!r}, the model assumes (None, '', [])")

    # argparse: what the namespace holds for each subcommand when nothing is typed
    ap = ofxget.make_argparser()
    commands = list(ap.subparsers.keys())
    arg_defaults = []
    arg_actions = {}
    for cmd, sp in ap.subparsers.items():
        ns = {}
        acts = {}
        for a in sp._actions:
            if a.dest in ("help",) or a.dest is argparse.SUPPRESS:
                continue
            if a.default is not argparse.SUPPRESS:
                ns[a.dest] = a.default
            acts[a.dest] = {"options": list(a.option_strings), "nargs": a.nargs,
                            "action": type(a).__name__, "const": json_val(getattr(a, "const", None)),
                            "type": getattr(a.type, "__name__", None) if a.type else None}
        for k, v in sp._defaults.items():
            ns[k] = v
        arg_defaults.append((cmd, list(ns.items())))
        arg_actions[cmd] = acts

    bool_states = list(configparser.RawConfigParser.BOOLEAN_STATES.items())
    max_depth = configparser.MAX_INTERPOLATION_DEPTH
    default_section = configparser.DEFAULTSECT
    ucfg = ofxget.UserConfig()
    if ucfg.default_section != default_section:
        problems.append("UserConfig.default_section differs from configparser.DEFAULTSECT")
    for cls in (ofxget.UserConfig, ofxget.LibraryConfig):
        if type(cls()._interpolation) is not configparser.Interpolation:
            problems.append(f"{cls.__name__} interpolation is {type(cls()._interpolation).__name__}, the model assumes "
                            f"interpolation=None (values stored and read verbatim)")
    if ucfg.optionxform("AbC") != "abc":
        problems.append("UserConfig.optionxform is not str.lower")

    L = []
    L.append("/- GENERATED by harness/translate_ofxget.py from the imported ofxtools.scripts.ofxget — do not edit. -/")
    L.append("import OfxModel.Ofx.Ofxget\n")
    L.append("namespace Ofx.Generated\nopen Ofx Ofx.Ofxget\n")
    L.append("/-- `ofxget.DEFAULTS`, `ofxget.CONFIGURABLE` (dict order, with the type of the default), the argparse\n"
             "    defaults of every subcommand, and the configparser constants the model uses -/")
    L.append("def ofxgetTables : Tables where")
    L.append("  defaults := [" + ",\n    ".join(f"({lean_str(k)}, {lean_val(v, problems, 'DEFAULTS.' + k)})" for k, v in defaults) + "]")
    L.append("  configurable := [" + ",\n    ".join(f"({lean_str(k)}, CfgTy.{t})" for k, t in configurable) + "]")
    L.append("  booleanStates := [" + ", ".join(f"({lean_str(k)}, {'true' if v else 'false'})" for k, v in bool_states) + "]")
    L.append(f"  defaultSection := {lean_str(default_section)}")
    L.append("  commands := [" + ", ".join(lean_str(c) for c in commands) + "]")
    rows = []
    for cmd, ns in arg_defaults:
        rows.append(f"({lean_str(cmd)}, [" + ", ".join(
            f"({lean_str(k)}, {lean_val(v, problems, f'argparse {cmd}.{k}')})" for k, v in ns) + "])")
    L.append("  argDefaults := [" + ",\n    ".join(rows) + "]")
    L.append("  acctTypes := [" + ", ".join(lean_str(c) for c in models.bank.stmt.ACCTTYPES) + "]")
    L.append("  svcStatuses := [" + ", ".join(lean_str(c) for c in models.common.SVCSTATUSES) + "]")
    L.append("\nend Ofx.Generated\n")

    twin = {
        "defaults": {k: json_val(v) for k, v in defaults},
        "defaults_order": [k for k, _ in defaults],
        "configurable": configurable,
        "null_args": [json_val(v) for v in null_args],
        "commands": commands,
        "arg_defaults": {cmd: {k: json_val(v) for k, v in ns} for cmd, ns in arg_defaults},
        "arg_actions": arg_actions,
        "boolean_states": {k: v for k, v in bool_states},
        "max_interpolation_depth": max_depth,
        "default_section": default_section,
        "svcstatuses": list(models.common.SVCSTATUSES),
        "accttypes": list(models.bank.stmt.ACCTTYPES),
        "problems": problems,
    }
    return "\n".join(L), twin


def write_if_changed(path, content):
    try:
        with open(path, encoding="utf-8") as f:
            if f.read() == content:
                return False
    except FileNotFoundError:
        pass
    os.makedirs(os.path.dirname(path), exist_ok=True)
    tmp = path + ".tmp"
    with open(tmp, "w", encoding="utf-8") as f:
        f.write(content)
    os.replace(tmp, path)
    return True


def main_from(repo, out_dir=None, work_dir=None):
    out_dir = out_dir or os.path.join(ROOT, "lean", "OfxModel", "Generated")
    work_dir = work_dir or os.path.join(ROOT, ".work")
    lean, twin = extract(repo, work_dir)
    ch = write_if_changed(os.path.join(out_dir, "OfxgetTables.lean"), lean)
    write_if_changed(os.path.join(work_dir, "ofxget.json"), json.dumps(twin, indent=1, sort_keys=True, ensure_ascii=True))
    return {"ofxget_tables_changed": ch, "ofxget_problems": twin["problems"]}


def main():
    ap = argparse.ArgumentParser()
    ap.add_argument("--repo", default=os.environ.get("OFX_REPO", "/repo"))
    a = ap.parse_args()
    print(json.dumps(main_from(a.repo)))


if __name__ == "__main__":
    main()
