"""Line protocol (Python side): S-expressions over hex-encoded atoms. Mirrors lean/OfxModel/Proto.lean."""
import binascii


class Atom(str):
    """A bare protocol atom (op names, T/F, none, numbers)."""
    __slots__ = ()


def S(s: str) -> str:
    """str -> atom text"""
    return "x" + binascii.hexlify(s.encode("utf-8", "surrogatepass")).decode("ascii")


def B(b: bytes) -> str:
    return "x" + binascii.hexlify(bytes(b)).decode("ascii")


def enc(v) -> str:
    """Python value -> protocol text.
    str -> hex atom; bytes -> hex atom; bool -> T/F; int -> decimal; None -> none;
    Atom -> itself; list/tuple -> ( ... ); ("some", v) is written by opt()."""
    if isinstance(v, Atom):
        return str(v)
    if isinstance(v, bool):
        return "T" if v else "F"
    if isinstance(v, int):
        return str(v)
    if isinstance(v, str):
        return S(v)
    if isinstance(v, (bytes, bytearray)):
        return B(v)
    if v is None:
        return "none"
    if isinstance(v, (list, tuple)):
        return "(" + " ".join(enc(x) for x in v) + ")"
    raise TypeError(f"cannot encode {v!r}")


def opt(v):
    """Optional value: None -> none, v -> (some v)"""
    return None if v is None else [Atom("some"), v]


def line(op: str, *args) -> str:
    return " ".join([op] + [enc(a) for a in args])


def _tokens(s: str):
    cur = []
    for ch in s:
        if ch in "()":
            if cur:
                yield "".join(cur)
                cur = []
            yield ch
        elif ch in " \t\r\n":
            if cur:
                yield "".join(cur)
                cur = []
        else:
            cur.append(ch)
    if cur:
        yield "".join(cur)


def parse(s: str):
    """reply text -> nested lists of atom strings"""
    stack = [[]]
    for t in _tokens(s):
        if t == "(":
            stack.append([])
        elif t == ")":
            x = stack.pop()
            stack[-1].append(x)
        else:
            stack[-1].append(t)
    if len(stack) != 1:
        raise ValueError(f"unbalanced reply: {s!r}")
    return stack[0]


def dstr(a: str) -> str:
    assert a.startswith("x"), a
    return binascii.unhexlify(a[1:]).decode("utf-8", "surrogatepass")


def dbytes(a: str) -> bytes:
    assert a.startswith("x"), a
    return binascii.unhexlify(a[1:])


def dint(a: str) -> int:
    return int(a)


def dbool(a: str) -> bool:
    assert a in ("T", "F"), a
    return a == "T"


def dopt(a, f):
    if a == "none":
        return None
    assert isinstance(a, list) and a[0] == "some"
    return f(a[1])


class Reply:
    """Parsed reply: ok(values) | err(kind) | bad-op"""
    __slots__ = ("kind", "vals", "err", "raw")

    def __init__(self, raw: str):
        self.raw = raw
        p = parse(raw)
        top = p[0] if p else ["bad-op"]
        if top[0] == "ok":
            self.kind, self.vals, self.err = "ok", top[1:], None
        elif top[0] == "err":
            self.kind, self.vals, self.err = "err", [], top[1]
        else:
            self.kind, self.vals, self.err = "bad", [], None

    @property
    def ok(self):
        return self.kind == "ok"

    def __repr__(self):
        return f"Reply({self.raw})"
