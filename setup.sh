#!/bin/sh
# Build the framework from files on disk only (offline): translate /repo, build model, proofs and driver.
set -e
here="$(cd "$(dirname "$0")" && pwd)"
PY="${VERIF_PYTHON:-/venv/bin/python}"
[ -x "$PY" ] || PY=python3
mkdir -p "$here/.work"
"$PY" "$here/harness/translate.py" --repo "${OFX_REPO:-/repo}"
cd "$here/lean"
lake build OfxModel driver OfxProofs TieAudit
# non-vacuity witness modules (class-specific examples; a failure here is a note in the evidence, not an error)
W=$("$PY" -c "import json;d=json.load(open('proofs_index.json'));print(' '.join(sorted({m for e in d.values() for m in e.get('witness_modules', [])})))")
[ -z "$W" ] || lake build $W || echo "note: a witness module does not build (see DESIGN.md 13.6)"
