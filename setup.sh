#!/bin/sh
# Build the framework from files on disk only (offline): translate /repo, build model, proofs and driver.
set -e
here="$(cd "$(dirname "$0")" && pwd)"
PY="${VERIF_PYTHON:-/venv/bin/python}"
[ -x "$PY" ] || PY=python3
mkdir -p "$here/.work"
"$PY" "$here/harness/translate.py" --repo "${OFX_REPO:-/repo}"
cd "$here/lean"
lake build OfxModel driver OfxProofs
